//! Shared part of the schedule simulator (E2): system bodies that touch and record everything
//! they can reach, world population, comparison with sequential execution, and the analyses of
//! the recorded fork/join history (C07, C08, C09, C12).

pub mod body;
pub mod parrun;
pub mod runner;
pub mod world5;

pub use body::*;
pub use parrun::*;
pub use runner::*;
pub use world5::*;
