// Included twice by world5.rs: once for the world with resources, once for the world without.

/// Add `n` entities of shape `mask` (bit i = local component i).
pub fn populate(w: &mut TheWorld, mask: u8, n: usize, seed: u64) -> Vec<entity::Identifier> {
    macro_rules! arm {
        () => { w.extend(Batch::new(entities::Null)) };
        ($($t:ty : $c:expr),+) => { w.extend(Batch::new(arm!(@nest $($t : $c),+))) };
        (@nest $t:ty : $c:expr) => { (col!($t, n, seed, $c), entities::Null) };
        (@nest $t:ty : $c:expr, $($rest:tt)+) => { (col!($t, n, seed, $c), arm!(@nest $($rest)+)) };
    }
    match mask & 31 {
        0 => {
            // A batch without columns has no rows: insert one by one.
            (0..n).map(|_| w.insert(brood::entity!())).collect()
        }
        1 => arm!(A:0),
        2 => arm!(Z:1),
        3 => arm!(A:0, Z:1),
        4 => arm!(H:2),
        5 => arm!(A:0, H:2),
        6 => arm!(Z:1, H:2),
        7 => arm!(A:0, Z:1, H:2),
        8 => arm!(O:3),
        9 => arm!(A:0, O:3),
        10 => arm!(Z:1, O:3),
        11 => arm!(A:0, Z:1, O:3),
        12 => arm!(H:2, O:3),
        13 => arm!(A:0, H:2, O:3),
        14 => arm!(Z:1, H:2, O:3),
        15 => arm!(A:0, Z:1, H:2, O:3),
        16 => arm!(W:4),
        17 => arm!(A:0, W:4),
        18 => arm!(Z:1, W:4),
        19 => arm!(A:0, Z:1, W:4),
        20 => arm!(H:2, W:4),
        21 => arm!(A:0, H:2, W:4),
        22 => arm!(Z:1, H:2, W:4),
        23 => arm!(A:0, Z:1, H:2, W:4),
        24 => arm!(O:3, W:4),
        25 => arm!(A:0, O:3, W:4),
        26 => arm!(Z:1, O:3, W:4),
        27 => arm!(A:0, Z:1, O:3, W:4),
        28 => arm!(H:2, O:3, W:4),
        29 => arm!(A:0, H:2, O:3, W:4),
        30 => arm!(Z:1, H:2, O:3, W:4),
        _ => arm!(A:0, Z:1, H:2, O:3, W:4),
    }
}


/// Full extraction of the world by value (serials ignored).
pub fn snapshot(w: &mut TheWorld) -> Result<Snapshot, String> {
    let mut out = Snapshot::new();
    let res = w.query(Query::<Views!(entity::Identifier, Option<&A>, Option<&Z>, Option<&H>, Option<&O>, Option<&W>)>::new());
    for brood::query::result!(id, a, z, h, o, ww) in res.iter {
        let mut rec = [None; NC];
        if let Some(a) = a {
            a.integrity()?;
            rec[0] = Some(a.val());
        }
        if z.is_some() {
            rec[1] = Some(0);
        }
        if let Some(h) = h {
            h.integrity()?;
            rec[2] = Some(h.val());
        }
        if let Some(o) = o {
            o.integrity()?;
            rec[3] = Some(o.val());
        }
        if let Some(x) = ww {
            x.integrity()?;
            rec[4] = Some(x.val());
        }
        if out.insert(id.verif_parts(), rec).is_some() {
            return Err(format!("identifier {:?} yielded twice", id.verif_parts()));
        }
    }
    Ok(out)
}

