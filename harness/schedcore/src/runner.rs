//! Running one schedule case under the simulated scheduler and judging the recorded history.

use crate::body::*;
use crate::world5::*;
use brood::entity;
use serde::{Deserialize, Serialize};
use simcore::rng::{mix, Rng};
use simcore::sched::{self, SimConfig, Strategy};
use simcore::{arena, fault, ledger};
use std::collections::BTreeMap;
use std::io::Write;
use std::panic::{catch_unwind, AssertUnwindSafe};

pub const K_REF: u8 = 0;
pub const K_MUT: u8 = 1;
pub const K_OPT: u8 = 2;
pub const K_OPTMUT: u8 = 3;
pub const K_ID: u8 = 4;

pub struct SysDesc {
    pub par: bool,
    pub views: &'static [(u8, u8)],
    pub res: &'static [(u8, u8)],
    pub entry: &'static [(u8, u8)],
}

pub struct CaseDesc {
    pub name: &'static str,
    pub systems: &'static [SysDesc],
}

pub struct Case {
    pub desc: &'static CaseDesc,
    /// Build fresh systems, run the schedule `repeats` times, return the systems' states.
    pub scheduled: fn(&mut Wd, u32) -> Vec<SysState>,
    /// Build fresh systems and run them one by one in declared order, `repeats` times.
    pub sequential: fn(&mut Wd, u32) -> Vec<SysState>,
    /// The same two, on a world without resources (only for schedules whose tasks view none).
    pub no_resources: Option<(fn(&mut Wd0, u32) -> Vec<SysState>, fn(&mut Wd0, u32) -> Vec<SysState>)>,
}

#[derive(Clone, Debug, Serialize, Deserialize)]
pub struct E2Config {
    pub num_threads: usize,
    /// "random" | "sticky" | "newest" | "oldest" | "starve"
    pub strategy: String,
    pub strategy_arg: u32,
    pub steal_num: u32,
    pub root_injected: bool,
    pub step_budget: u64,
    pub repeats: u32,
    /// (shape mask, count)
    pub pop: Vec<(u8, u16)>,
    /// Shapes whose entities are all removed again (emptied archetypes).
    pub emptied: Vec<u8>,
    /// Inject a panic at the k-th callback of this kind ("system" | "paritem").
    pub fault: Option<(String, u32)>,
    #[serde(default)]
    pub inline_only: bool,
    /// Run on `World::new()` (no resources) when the schedule allows it.
    #[serde(default)]
    pub no_resources: bool,
}

#[derive(Clone, Debug, Serialize, Deserialize)]
pub struct E2Replay {
    pub engine: String,
    pub profile: String,
    pub seed: u64,
    pub index: u64,
    pub case: usize,
    pub case_name: String,
    pub run_seed: u64,
    pub cfg: E2Config,
    /// Scheduler decisions; missing entries default to "inline / keep running".
    pub decisions: Option<Vec<u16>>,
    pub expect: Option<Viol>,
    #[serde(default)]
    pub log_hash: Option<String>,
    #[serde(default)]
    pub ops: Vec<serde_json::Value>,
}

#[derive(Clone, Debug, Serialize, Deserialize, PartialEq)]
pub struct Viol {
    pub property: String,
    pub oracle: String,
    pub text: String,
    pub op: u32,
}

fn viol(p: &str, o: &str, t: String) -> Viol {
    Viol { property: p.into(), oracle: o.into(), text: t, op: 0 }
}

#[derive(Clone, Debug, Default, Serialize)]
pub struct E2Out {
    pub index: u64,
    pub sub: Option<String>,
    pub run_seed: u64,
    pub case: usize,
    pub nops: usize,
    pub ops_executed: u32,
    pub log_hash: String,
    pub violation: Option<Viol>,
    pub probes: BTreeMap<String, u64>,
    pub faults: BTreeMap<String, u64>,
    pub states: Vec<u64>,
    pub callbacks: [u64; fault::NKINDS],
    pub allocs: u64,
    pub sched: BTreeMap<String, u64>,
    pub history_hash: String,
    pub op_hist: BTreeMap<String, u64>,
    #[serde(skip)]
    pub decisions: Vec<u16>,
}

pub fn make_config(profile: &str, run_seed: u64, thorough: bool, ntasks: usize, may_have_no_resources: bool) -> E2Config {
    let mut rng = Rng::new(run_seed, 1);
    let num_threads = *rng.pick(&[1usize, 1, 2, 2, 3, 4, 4, 8, 16, 64]);
    let (strategy, strategy_arg) = match rng.below(8) {
        0 | 1 | 2 => ("random", 0),
        3 | 4 => ("sticky", rng.range(2, 12) as u32),
        5 => ("newest", 0),
        6 => ("oldest", 0),
        _ => ("starve", rng.below(8) as u32),
    };
    let steal_num = *rng.pick(&[0u32, 2, 4, 4, 6, 8, 8]);
    let empty_prob = match profile {
        "C12" => 5,
        _ => 1,
    };
    let mut pop = Vec::new();
    let mut emptied = Vec::new();
    // One world in six is crowded (15-32 of the 32 possible tables: the archetype table has more
    // than 16 buckets, a stage borrows more than 16 tables), one in sixty has a table of more than
    // a thousand rows next to small ones (beyond small-size thresholds of the parallel plumbing).
    let crowded = rng.chance(1, 6);
    let big = !crowded && rng.chance(1, 60);
    let big = big && !cfg!(miri);
    if !rng.chance(empty_prob, 10) {
        if crowded {
            let mut masks: Vec<u8> = (0..32).collect();
            let nshapes = rng.range(15, 32) as usize;
            for i in 0..nshapes {
                let j = i + rng.usize_below(masks.len() - i);
                masks.swap(i, j);
                let n = *rng.pick(&[1u16, 1, 1, 2, 3, 7]);
                pop.push((masks[i], n));
                if rng.chance(1, 8) {
                    emptied.push(masks[i]);
                }
            }
        } else {
            let nshapes = rng.range(1, if thorough { 12 } else { 8 });
            for i in 0..nshapes {
                let mask = rng.below(32) as u8;
                let n = if big && i == 0 { rng.range(1030, 2600) as u16 } else { *rng.pick(&[1u16, 1, 2, 2, 3, 7, 7, 20, if thorough { 300 } else { 60 }]) };
                pop.push((mask, n));
                if rng.chance(1, 8) && !(big && i == 0) {
                    emptied.push(mask);
                }
            }
        }
    }
    let fault = if profile == "C17" {
        let kind = if rng.chance(1, 2) { "system" } else { "paritem" };
        Some((kind.to_string(), rng.range(1, (ntasks as u64 * 2).max(2)) as u32))
    } else {
        None
    };
    E2Config {
        num_threads,
        strategy: strategy.into(),
        strategy_arg,
        steal_num,
        root_injected: rng.chance(1, 2),
        step_budget: 400_000,
        repeats: if rng.chance(1, 4) { 2 } else { 1 },
        pop,
        emptied,
        fault,
        inline_only: cfg!(miri),
        no_resources: may_have_no_resources && rng.chance(1, 3),
    }
}

fn strategy_of(cfg: &E2Config) -> Strategy {
    match cfg.strategy.as_str() {
        "sticky" => Strategy::Sticky { preempt_den: cfg.strategy_arg.max(1) },
        "newest" => Strategy::Newest,
        "oldest" => Strategy::Oldest,
        "starve" => Strategy::Starve { victim: cfg.strategy_arg },
        _ => Strategy::Random,
    }
}

fn sim_config(cfg: &E2Config) -> SimConfig {
    SimConfig {
        num_threads: cfg.num_threads.max(1),
        strategy: strategy_of(cfg),
        steal_num: cfg.steal_num.min(8),
        root_injected: cfg.root_injected,
        step_budget: cfg.step_budget,
        inline_only: cfg.inline_only || cfg!(miri),
    }
}

fn inline_config() -> SimConfig {
    SimConfig { num_threads: 1, strategy: Strategy::Oldest, steal_num: 0, root_injected: false, step_budget: 50_000_000, inline_only: true }
}

fn writes(k: u8) -> bool {
    k == K_MUT || k == K_OPTMUT
}

/// Do two systems conflict by declared access (filters ignored)?
pub fn conflicts(a: &SysDesc, b: &SysDesc) -> bool {
    let touches = |s: &SysDesc| -> Vec<(u8, bool)> {
        s.views.iter().chain(s.entry.iter()).filter(|(k, _)| *k != K_ID).map(|(k, c)| (*c, writes(*k))).collect()
    };
    for (c1, w1) in touches(a) {
        for (c2, w2) in touches(b) {
            if c1 == c2 && (w1 || w2) {
                return true;
            }
        }
    }
    for (k1, r1) in a.res {
        for (k2, r2) in b.res {
            if r1 == r2 && (writes(*k1) || writes(*k2)) {
                return true;
            }
        }
    }
    false
}

/// Greedy in-order grouping by declared access: the reference for C12.
pub fn reference_groups(d: &CaseDesc) -> Vec<Vec<usize>> {
    let mut groups: Vec<Vec<usize>> = Vec::new();
    for (i, s) in d.systems.iter().enumerate() {
        let fits = groups.last().map_or(false, |g| g.iter().all(|j| !conflicts(&d.systems[*j], s)));
        if fits {
            groups.last_mut().unwrap().push(i);
        } else {
            groups.push(vec![i]);
        }
    }
    groups
}

/// Execute one case. Must be called inside an arena run.
pub fn run_case(case: &Case, cfg: &E2Config, run_seed: u64, decisions: Option<Vec<u16>>) -> E2Out {
    match (cfg.no_resources, case.no_resources) {
        (true, Some((scheduled, sequential))) => run_case_on::<Wd0>(case.desc, scheduled, sequential, cfg, run_seed, decisions),
        _ => run_case_on::<Wd>(case.desc, case.scheduled, case.sequential, cfg, run_seed, decisions),
    }
}

fn run_case_on<Wx: SimWorld>(
    desc: &'static CaseDesc,
    scheduled: fn(&mut Wx, u32) -> Vec<SysState>,
    sequential: fn(&mut Wx, u32) -> Vec<SysState>,
    cfg: &E2Config,
    run_seed: u64,
    decisions: Option<Vec<u16>>,
) -> E2Out {
    let mut out = E2Out::default();
    out.run_seed = run_seed;
    let mut probes: BTreeMap<String, u64> = BTreeMap::new();
    let mut hit = |probes: &mut BTreeMap<String, u64>, k: &str, n: u64| *probes.entry(k.to_string()).or_insert(0) += n;
    let violation = (|| -> Result<(), Viol> {
        // World.
        let mut w = Wx::new_world(run_seed);
        let mut ids: Vec<entity::Identifier> = Vec::new();
        let mut dead: Vec<entity::Identifier> = Vec::new();
        for (i, (mask, n)) in cfg.pop.iter().enumerate() {
            let got = w.populate(*mask, *n as usize, mix(&[run_seed, i as u64, 0x90]));
            if cfg.emptied.contains(mask) {
                for id in &got {
                    w.remove_entity(*id);
                }
                dead.extend(got.iter().take(2).copied());
                hit(&mut probes, "emptied_archetype", 1);
            } else {
                ids.extend(got);
            }
        }
        if cfg.pop.is_empty() {
            hit(&mut probes, "world_without_archetypes", 1);
        }
        if cfg.pop.len() >= 15 {
            hit(&mut probes, "crowded_world", 1);
        }
        if cfg.pop.iter().any(|(_, n)| *n >= 1024) {
            hit(&mut probes, "table_of_more_than_1024_rows", 1);
        }
        if !Wx::HAS_RESOURCES {
            hit(&mut probes, "world_without_resources", 1);
        }
        if ids.is_empty() {
            hit(&mut probes, "empty_world", 1);
        } else {
            hit(&mut probes, "populated_world", 1);
        }
        let mut targets = ids.clone();
        targets.extend(dead);
        set_targets(targets);
        let mut wref = w.clone();
        let before = w.snapshot().map_err(|e| viol("C05", "payload-integrity", e))?;
        let before_ref = wref.snapshot().map_err(|e| viol("C05", "payload-integrity", e))?;
        if let Some(d) = diff_snapshots(&before, &before_ref) {
            return Err(viol("C10", "clone-content", format!("reference clone differs before the run: {d}")));
        }
        let ntasks = desc.systems.len();
        // Scheduled run.
        if let Some((kind, k)) = &cfg.fault {
            let kk = if kind == "system" { fault::Kind::System } else { fault::Kind::ParItem };
            fault::begin_op();
            fault::arm(kk, *k as u64, false);
        }
        sched::begin(sim_config(cfg), run_seed, decisions.clone());
        let prev = arena::set_tag(arena::TAG_SUT);
        let r = catch_unwind(AssertUnwindSafe(|| (scheduled)(&mut w, cfg.repeats)));
        arena::set_tag(prev);
        let outcome = sched::end();
        fault::disarm();
        let fired = fault::fired();
        out.decisions = outcome.decisions.clone();
        let st = &outcome.stats;
        for (k, v) in [
            ("forks", st.forks),
            ("steals", st.steals),
            ("inline_forks", st.inline_forks),
            ("yields", st.yields),
            ("switches", st.switches),
            ("blocks", st.blocks),
            ("steps", st.steps),
            ("decisions", st.decisions),
            ("denied_steals", st.denied_steals),
            ("max_live_threads", st.max_live_threads as u64),
            ("accesses", outcome.accesses.len() as u64),
        ] {
            out.sched.insert(k.to_string(), v);
        }
        out.sched.insert(format!("pool_{}", cfg.num_threads), 1);
        out.sched.insert(format!("strategy_{}", cfg.strategy), 1);
        out.states.push(outcome.shape_hash);
        out.states.push(outcome.order_hash ^ 0x5555);
        out.ops_executed = st.steps as u32;
        if let Some(e) = take_body_error() {
            return Err(viol(if fired { "C17" } else { "C05" }, "payload-integrity", e));
        }
        if let Some(f) = &outcome.failure {
            return Err(viol("C12", "no-progress", format!("run_schedule did not finish: {f} (pool size {}, strategy {})", cfg.num_threads, cfg.strategy)));
        }
        let states = match r {
            Ok(s) => {
                if fired {
                    return Err(viol("C17", "panic-swallowed", "an injected panic in a system body did not reach the caller of run_schedule".into()));
                }
                s
            }
            Err(p) => {
                if p.downcast_ref::<fault::Injected>().is_some() && fired {
                    *out.faults.entry(format!("panic-{}", cfg.fault.as_ref().map(|f| f.0.as_str()).unwrap_or("?"))).or_insert(0) += 1;
                    hit(&mut probes, "fault_fired", 1);
                    // rayon's contract, reproduced by the simulator: every sibling that was started has
                    // finished before the panic is observed by the caller.
                    let open: Vec<u32> = outcome.spans.iter().filter(|s| s.end_step == u64::MAX).map(|s| s.task).collect();
                    if open.len() > 1 {
                        return Err(viol("C17", "sibling-still-running", format!("tasks {open:?} had not finished when the panic reached the caller")));
                    }
                    // The world must still be usable and droppable.
                    let after = w.snapshot().map_err(|e| viol("C17", "payload-integrity", e))?;
                    if after.len() != before.len() {
                        return Err(viol("C17", "world-damaged", format!("{} entities before the panicking schedule, {} after", before.len(), after.len())));
                    }
                    drop(p);
                    let prev = arena::set_tag(arena::TAG_SUT);
                    drop(w);
                    drop(wref);
                    arena::set_tag(prev);
                    if let Some(e) = ledger::first_error() {
                        return Err(viol("C17", "drop-ledger", e));
                    }
                    if let Some(e) = arena::error() {
                        return Err(viol("C17", "arena-audit", e));
                    }
                    return Ok(());
                }
                let msg = if let Some(a) = p.downcast_ref::<sched::SimAbort>() {
                    a.0.clone()
                } else {
                    simcore::take_panic().unwrap_or_else(|| "<panic>".into())
                };
                return Err(viol("C07", "unexpected-panic", format!("run_schedule panicked: {msg}")));
            }
        };
        if cfg.fault.is_some() {
            hit(&mut probes, "fault_armed_not_reached", 1);
        }
        // Sequential reference on the clone.
        sched::begin(inline_config(), run_seed, None);
        let prev = arena::set_tag(arena::TAG_SUT);
        let rr = catch_unwind(AssertUnwindSafe(|| (sequential)(&mut wref, cfg.repeats)));
        arena::set_tag(prev);
        let _ = sched::end();
        let ref_states = match rr {
            Ok(s) => s,
            Err(_) => return Err(viol("C07", "harness", format!("sequential reference panicked: {:?}", simcore::take_panic()))),
        };
        if let Some(e) = take_body_error() {
            return Err(viol("C05", "payload-integrity", e));
        }
        // C07: exactly once, and everything equal to the sequential outcome.
        for (i, s) in states.iter().enumerate() {
            if s.runs != cfg.repeats {
                return Err(viol("C07", "task-run-count", format!("task {i} of schedule {} ran {} time(s) in {} run_schedule call(s)", desc.name, s.runs, cfg.repeats)));
            }
        }
        let after = w.snapshot().map_err(|e| viol("C05", "payload-integrity", e))?;
        let after_ref = wref.snapshot().map_err(|e| viol("C05", "payload-integrity", e))?;
        if let Some(d) = diff_snapshots(&after, &after_ref) {
            return Err(viol("C07", "differs-from-sequential", format!("schedule {}: world differs from sequential execution: {d}", desc.name)));
        }
        let (rv, rvr) = (w.resource_vals(), wref.resource_vals());
        if rv != rvr {
            return Err(viol("C07", "differs-from-sequential", format!("schedule {}: resources {rv:x?} differ from sequential execution {rvr:x?}", desc.name)));
        }
        for i in 0..ntasks {
            if states[i] != ref_states[i] {
                return Err(viol(
                    "C07",
                    "differs-from-sequential",
                    format!("schedule {}: state of task {i} is {:x?}, sequential execution gives {:x?}", desc.name, states[i], ref_states[i]),
                ));
            }
        }
        if after != before {
            hit(&mut probes, "schedule_changed_world", 1);
        }
        // C08: conflicting reachable accesses of different tasks must be ordered by fork/join.
        let mut by_addr: BTreeMap<usize, Vec<(u32, bool, u32, u16)>> = BTreeMap::new();
        for a in &outcome.accesses {
            let v = by_addr.entry(a.addr).or_default();
            if !v.iter().any(|x| x.0 == a.task && x.1 == a.write && x.2 == a.strand) {
                v.push((a.task, a.write, a.strand, a.what));
            }
        }
        let mut shared_pairs = 0u64;
        for (addr, v) in &by_addr {
            for i in 0..v.len() {
                for j in i + 1..v.len() {
                    let (x, y) = (&v[i], &v[j]);
                    if x.0 == y.0 || !(x.1 || y.1) {
                        if x.0 == y.0 && (x.1 || y.1) && x.2 != y.2 {
                            // Same task, two strands (parallel system): C09's business.
                            if sched::logically_parallel(&outcome.strands[x.2 as usize], &outcome.strands[y.2 as usize]) {
                                return Err(viol(
                                    "C09",
                                    "parallel-items-alias",
                                    format!("task {} handed out {} access to the same value ({}) at {addr:#x} to two items that may run in parallel", x.0, if x.1 && y.1 { "mutable" } else { "mutable and shared" }, what_name(x.3)),
                                ));
                            }
                        }
                        continue;
                    }
                    shared_pairs += 1;
                    if sched::logically_parallel(&outcome.strands[x.2 as usize], &outcome.strands[y.2 as usize]) {
                        return Err(viol(
                            "C08",
                            "conflicting-tasks-overlap",
                            format!(
                                "schedule {}: task {} ({}) and task {} ({}) can both reach {} at {addr:#x} and were forked so that they may run at the same time (strands {:?} and {:?})",
                                desc.name,
                                x.0,
                                if x.1 { "writes" } else { "reads" },
                                y.0,
                                if y.1 { "writes" } else { "reads" },
                                what_name(x.3),
                                outcome.strands[x.2 as usize],
                                outcome.strands[y.2 as usize]
                            ),
                        ));
                    }
                }
            }
        }
        if shared_pairs > 0 {
            hit(&mut probes, "conflicting_task_pairs_checked", shared_pairs);
        }
        // Were any two tasks actually overlapped in this run's interleaving?
        let mut overlapped = false;
        for i in 0..outcome.spans.len() {
            for j in i + 1..outcome.spans.len() {
                let (a, b) = (&outcome.spans[i], &outcome.spans[j]);
                if a.task != b.task && a.begin_step < b.end_step && b.begin_step < a.end_step && a.logical != b.logical {
                    overlapped = true;
                }
            }
        }
        if overlapped {
            hit(&mut probes, "tasks_interleaved_in_time", 1);
        }
        // C12: tasks of one reference group must be logically parallel (strict on an empty world).
        let groups = reference_groups(desc);
        let first_span = |t: usize| outcome.spans.iter().find(|s| s.task as usize == t);
        let mut add_on_seen = false;
        for (gi, g) in groups.iter().enumerate() {
            for x in 0..g.len() {
                for y in x + 1..g.len() {
                    let (Some(sx), Some(sy)) = (first_span(g[x]), first_span(g[y])) else { continue };
                    let (px, py) = (&outcome.strands[sx.strand as usize], &outcome.strands[sy.strand as usize]);
                    if sched::logically_parallel(px, py) {
                        hit(&mut probes, "independent_pair_parallel", 1);
                        continue;
                    }
                    // Sequential. Allowed only if one of them ran early as an add-on of an earlier group.
                    let root = |p: &Vec<(u32, u8)>| p.first().map(|f| f.0);
                    let earlier_group_roots: Vec<Option<u32>> = groups[..gi]
                        .iter()
                        .flatten()
                        .filter_map(|t| first_span(*t))
                        .map(|s| root(&outcome.strands[s.strand as usize]))
                        .collect();
                    let x_addon = earlier_group_roots.contains(&root(px));
                    let y_addon = earlier_group_roots.contains(&root(py));
                    // Without any archetype table brood takes no run-time decisions at all. Two tasks
                    // that ran in the same fork tree (same stage, or both started early within the
                    // same earlier stage) are always forked, never run one after the other.
                    let same_tree = root(px) == root(py);
                    if cfg.pop.is_empty() || same_tree || !(x_addon || y_addon) {
                        return Err(viol(
                            "C12",
                            "independent-tasks-serialised",
                            format!(
                                "schedule {}: tasks {} and {} have no conflicting component or resource access and are adjacent in one greedy group {:?}, but were placed so that they can never run at the same time (strands {:?} / {:?}; world {})",
                                desc.name,
                                g[x],
                                g[y],
                                g,
                                px,
                                py,
                                if cfg.pop.is_empty() { "without archetypes" } else { "with archetypes" }
                            ),
                        ));
                    }
                    add_on_seen = true;
                }
            }
        }
        // A task that runs in the fork tree of an earlier group is a run-time add-on.
        for (gi, g) in groups.iter().enumerate().skip(1) {
            for t in g {
                if let Some(s) = first_span(*t) {
                    let r = outcome.strands[s.strand as usize].first().map(|f| f.0);
                    let earlier: Vec<Option<u32>> =
                        groups[..gi].iter().flatten().filter_map(|t| first_span(*t)).map(|s| outcome.strands[s.strand as usize].first().map(|f| f.0)).collect();
                    if earlier.contains(&r) {
                        add_on_seen = true;
                    }
                }
            }
        }
        if add_on_seen {
            hit(&mut probes, "run_time_add_on_started_early", 1);
        }
        if groups.iter().any(|g| g.len() > 1) {
            hit(&mut probes, "schedule_has_parallel_group", 1);
        }
        if cfg.num_threads == 1 {
            hit(&mut probes, "single_thread_pool", 1);
        }
        if outcome.stats.steals > 0 {
            hit(&mut probes, "run_with_steals", 1);
        }
        let prev = arena::set_tag(arena::TAG_SUT);
        drop(w);
        drop(wref);
        arena::set_tag(prev);
        if let Some(e) = ledger::first_error() {
            return Err(viol("C04", "drop-ledger", e));
        }
        if let Some(e) = arena::error() {
            return Err(viol("C05", "arena-audit", e));
        }
        Ok(())
    })();
    set_targets(Vec::new());
    out.violation = violation.err();
    out.probes = probes;
    out.callbacks = fault::totals();
    out
}

fn what_name(w: u16) -> String {
    if w >= 0x100 {
        format!("resource {}", simcore::zoo::RESOURCE_NAMES[(w - 0x100) as usize % 4])
    } else {
        format!("component {}", COMP_NAMES[w as usize % NC])
    }
}

pub fn copy_out(o: &E2Out) -> E2Out {
    E2Out {
        index: o.index,
        sub: None,
        run_seed: o.run_seed,
        case: o.case,
        nops: o.nops,
        ops_executed: o.ops_executed,
        log_hash: o.log_hash.as_str().to_owned(),
        violation: o.violation.as_ref().map(|v| Viol {
            property: v.property.as_str().to_owned(),
            oracle: v.oracle.as_str().to_owned(),
            text: v.text.as_str().to_owned(),
            op: v.op,
        }),
        probes: o.probes.iter().map(|(k, v)| (k.as_str().to_owned(), *v)).collect(),
        faults: o.faults.iter().map(|(k, v)| (k.as_str().to_owned(), *v)).collect(),
        states: o.states.iter().copied().collect(),
        callbacks: o.callbacks,
        allocs: o.allocs,
        sched: o.sched.iter().map(|(k, v)| (k.as_str().to_owned(), *v)).collect(),
        history_hash: o.history_hash.as_str().to_owned(),
        op_hist: o.op_hist.iter().map(|(k, v)| (k.as_str().to_owned(), *v)).collect(),
        decisions: o.decisions.iter().copied().collect(),
    }
}

/// Run one case in a fresh arena and copy the result out of it.
pub fn run_in_arena(case: &Case, cfg: &E2Config, run_seed: u64, decisions: Option<Vec<u16>>) -> E2Out {
    arena::begin_run();
    ledger::reset();
    fault::reset_run();
    let _ = simcore::take_panic();
    let _ = take_body_error();
    let mut o = run_case(case, cfg, run_seed, decisions);
    let st = arena::stats();
    o.allocs = st.allocs;
    let mut h = simcore::rng::Fnv::default();
    for s in &o.states {
        h.u64(*s);
    }
    for d in &o.decisions {
        h.u64(*d as u64);
    }
    h.u64(o.violation.is_some() as u64);
    o.log_hash = format!("{:016x}", h.0);
    ledger::reset();
    arena::end_run();
    let c = copy_out(&o);
    drop(o);
    c
}

fn case_seed(seed: u64, engine: &str, index: u64) -> u64 {
    let mut h = simcore::rng::Fnv::default();
    h.bytes(engine.as_bytes());
    mix(&[seed, 0xE2, h.0, index])
}

/// Command-line front end shared by every generated schedule simulator binary.
pub fn main_with(engine: &str, cases: &[Case]) {
    let argv: Vec<String> = std::env::args().collect();
    let mut profile = "C07".to_string();
    let (mut seed, mut from, mut count, mut index) = (1u64, 0u64, 1u64, 0u64);
    let mut thorough = false;
    let mut verbose = false;
    let mut file: Option<String> = None;
    let cmd = argv.get(1).cloned().unwrap_or_default();
    let mut i = 2;
    while i < argv.len() {
        let val = |i: &mut usize| -> String {
            *i += 1;
            argv.get(*i).cloned().unwrap_or_default()
        };
        match argv[i].as_str() {
            "--profile" => profile = val(&mut i),
            "--seed" => seed = val(&mut i).parse().unwrap_or(1),
            "--from" => from = val(&mut i).parse().unwrap_or(0),
            "--count" => count = val(&mut i).parse().unwrap_or(1),
            "--index" => index = val(&mut i).parse().unwrap_or(0),
            "--thorough" => thorough = true,
            "--verbose" => verbose = true,
            s if !s.starts_with("--") => file = Some(s.to_string()),
            _ => {}
        }
        i += 1;
    }
    simcore::install_panic_hook(verbose);
    if !cfg!(miri) {
        sched::init_pool(64);
    }
    simcore::install_rayon_seam();
    let stdout = std::io::stdout();
    let mut out = stdout.lock();
    writeln!(out, "HELLO {engine} cases={} arena={}", cases.len(), arena::audits_enabled()).unwrap();
    out.flush().unwrap();
    let _ = catch_unwind(|| std::panic::panic_any(fault::Injected { kind: fault::Kind::Clone, k: 0 }));
    // Profiles that are about one kind of task only draw from the cases that contain such a task
    // (all cases if this binary has none).
    let eligible: Vec<usize> = {
        let want = |c: &Case| match profile.as_str() {
            "C15" => c.desc.systems.iter().any(|s| !s.res.is_empty()),
            "C09" => c.desc.systems.iter().any(|s| s.par),
            _ => true,
        };
        let v: Vec<usize> = (0..cases.len()).filter(|i| want(&cases[*i])).collect();
        if v.is_empty() {
            (0..cases.len()).collect()
        } else {
            v
        }
    };
    let make = |idx: u64| -> (usize, u64, E2Config) {
        let case = eligible[(idx as usize) % eligible.len()];
        let mut ph = simcore::rng::Fnv::default();
        ph.bytes(profile.as_bytes());
        let rs = mix(&[case_seed(seed, engine, idx), ph.0]);
        let cfg = make_config(&profile, rs, thorough, cases[case].desc.systems.len(), cases[case].no_resources.is_some());
        (case, rs, cfg)
    };
    match cmd.as_str() {
        "run" => {
            let t0 = std::time::Instant::now();
            let mut done = 0;
            for idx in from..from + count {
                let (case, rs, cfg) = make(idx);
                writeln!(out, "START {idx} {rs}").unwrap();
                out.flush().unwrap();
                let mut r = run_in_arena(&cases[case], &cfg, rs, None);
                r.index = idx;
                r.case = case;
                r.nops = cases[case].desc.systems.len();
                let cfg_json = serde_json::to_string(&cfg).unwrap();
                let mut h = simcore::rng::Fnv::default();
                h.bytes(cfg_json.as_bytes());
                h.u64(case as u64);
                for d in &r.decisions {
                    h.u64(*d as u64);
                }
                r.history_hash = format!("{:016x}", h.0);
                r.op_hist.insert(format!("case:{}", cases[case].desc.name), 1);
                writeln!(out, "RUN {}", serde_json::to_string(&r).unwrap()).unwrap();
                if r.violation.is_some() {
                    let rep = E2Replay {
                        engine: engine.to_string(),
                        profile: profile.clone(),
                        seed,
                        index: idx,
                        case,
                        case_name: cases[case].desc.name.to_string(),
                        run_seed: rs,
                        cfg: cfg.clone(),
                        decisions: Some(r.decisions.clone()),
                        expect: r.violation.clone(),
                        log_hash: Some(r.log_hash.clone()),
                        ops: Vec::new(),
                    };
                    writeln!(out, "REPLAY {}", serde_json::to_string(&rep).unwrap()).unwrap();
                }
                out.flush().unwrap();
                done += 1;
            }
            writeln!(out, "DONE {done} {}", t0.elapsed().as_millis()).unwrap();
        }
        "emit" => {
            let (case, rs, cfg) = make(index);
            let rep = E2Replay {
                engine: engine.to_string(),
                profile: profile.clone(),
                seed,
                index,
                case,
                case_name: cases[case].desc.name.to_string(),
                run_seed: rs,
                cfg,
                decisions: None,
                expect: None,
                log_hash: None,
                ops: Vec::new(),
            };
            writeln!(out, "REPLAY {}", serde_json::to_string(&rep).unwrap()).unwrap();
        }
        "replay" => {
            let f = file.unwrap_or_else(|| {
                eprintln!("replay needs a file");
                std::process::exit(2)
            });
            let text = std::fs::read_to_string(&f).unwrap_or_else(|e| {
                eprintln!("cannot read {f}: {e}");
                std::process::exit(2)
            });
            let rep: E2Replay = serde_json::from_str(&text).unwrap_or_else(|e| {
                eprintln!("cannot parse {f}: {e}");
                std::process::exit(2)
            });
            let case = rep.case % cases.len();
            let mut r = run_in_arena(&cases[case], &rep.cfg, rep.run_seed, rep.decisions.clone());
            r.case = case;
            writeln!(out, "RUN {}", serde_json::to_string(&r).unwrap()).unwrap();
            match &r.violation {
                Some(v) => {
                    writeln!(out, "VIOLATION property={} replay={} oracle={} :: {}", v.property, f, v.oracle, v.text).unwrap();
                    std::process::exit(1);
                }
                None => writeln!(out, "NO-VIOLATION").unwrap(),
            }
        }
        "list" => {
            for (i, c) in cases.iter().enumerate() {
                writeln!(out, "CASE {i} {} tasks={} groups={:?}", c.desc.name, c.desc.systems.len(), reference_groups(c.desc)).unwrap();
            }
        }
        _ => {
            eprintln!("usage: {engine} run|emit|replay|list ...");
            std::process::exit(2);
        }
    }
}
