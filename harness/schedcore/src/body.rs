//! System bodies: every generated system reads everything it was handed (iterator items,
//! resources, and through its entry views every live entity), records each reachable value with
//! the strand it was reached from, and writes through every mutable view a value that depends on
//! what it read before. Within a task the outcome does not depend on item order; across tasks
//! that share data it does, which is what makes "equals sequential execution" a sharp oracle.

use crate::world5::local_ix;
use brood::entity;
use simcore::fault::{self, Kind};
use simcore::rng::mix;
use simcore::sched;
use simcore::zoo::Tracked;
use std::sync::atomic::{AtomicU64, Ordering};
use std::sync::Mutex;

#[derive(Clone, Copy, Debug, Default, PartialEq, Eq)]
pub struct SysState {
    /// Commutative fold over everything the system read in all its runs.
    pub fold: u64,
    pub runs: u32,
}

#[derive(Clone, Copy, Debug)]
pub struct Ctx {
    pub task: u32,
    pub salt: u64,
    pub span: usize,
}

/// Entity identifiers every system probes through its entry views.
static TARGETS: Mutex<Vec<entity::Identifier>> = Mutex::new(Vec::new());
static BODY_ERROR: Mutex<Option<String>> = Mutex::new(None);

pub fn set_targets(ids: Vec<entity::Identifier>) {
    let _t = simcore::arena::tag_scope(simcore::arena::TAG_HARNESS);
    *TARGETS.lock().unwrap_or_else(|p| p.into_inner()) = ids;
}

pub fn targets() -> Vec<entity::Identifier> {
    let _t = simcore::arena::tag_scope(simcore::arena::TAG_HARNESS);
    TARGETS.lock().unwrap_or_else(|p| p.into_inner()).clone()
}

pub fn body_error(e: String) {
    let _t = simcore::arena::tag_scope(simcore::arena::TAG_HARNESS);
    let mut g = BODY_ERROR.lock().unwrap_or_else(|p| p.into_inner());
    if g.is_none() {
        *g = Some(e);
    }
}

pub fn take_body_error() -> Option<String> {
    let _t = simcore::arena::tag_scope(simcore::arena::TAG_HARNESS);
    BODY_ERROR.lock().unwrap_or_else(|p| p.into_inner()).take()
}

pub struct Cx {
    pub task: u32,
    pub salt: u64,
    /// Fold of what was read so far in this item / resource list.
    pub acc: u64,
    /// Fold of the task's resource reads (input to every write).
    pub rsum: u64,
    pub write: bool,
    /// What base to add to the recorded "what" tag (0 = components, 0x100 = resources).
    pub base: u16,
    /// Per-item observation for the parallel-query checks: (what, present, val before, addr, mutable).
    pub obs: Option<Vec<(u16, bool, u64, usize, bool)>>,
    pub id: Option<(usize, u64)>,
}

impl Cx {
    pub fn new(ctx: &Ctx, rsum: u64) -> Cx {
        Cx { task: ctx.task, salt: ctx.salt, acc: 0x1234_5678, rsum, write: true, base: 0, obs: None, id: None }
    }
}

fn what_of<T: Tracked>(cx: &Cx) -> u16 {
    if T::IX >= 16 {
        0x100 + (T::IX as u16 - 16)
    } else {
        cx.base + local_ix(T::IX) as u16
    }
}

pub trait Touch {
    fn touch(self, cx: &mut Cx);
}

fn read<T: Tracked>(t: &T, cx: &mut Cx, mutable: bool) -> u64 {
    if let Err(e) = t.integrity() {
        body_error(format!("task {}: {e}", cx.task));
    } else if T::HAS_SERIAL && !simcore::ledger::is_live(t.serial(), T::IX) {
        body_error(format!("task {}: reached a {} value that is not live: {}", cx.task, T::NAME, simcore::ledger::describe(t.serial())));
    }
    let w = what_of::<T>(cx);
    if std::mem::size_of::<T>() > 0 {
        // Zero-sized values all live at the same dangling address and hold no data to race on.
        sched::record_access(cx.task, t.addr(), mutable, w);
    }
    let v = t.val();
    if let Some(o) = cx.obs.as_mut() {
        let _t = simcore::arena::tag_scope(simcore::arena::TAG_HARNESS);
        o.push((w, true, v, t.addr(), mutable));
    }
    cx.acc = mix(&[cx.acc, w as u64, v]);
    v
}

fn write<T: Tracked>(t: &mut T, old: u64, cx: &mut Cx) {
    if cx.write {
        let nv = T::norm(mix(&[old, cx.salt, cx.acc, cx.rsum]));
        t.set_val(nv);
        cx.acc = mix(&[cx.acc, nv]);
    }
}

fn absent<T: Tracked>(cx: &mut Cx, mutable: bool) {
    let w = what_of::<T>(cx);
    if let Some(o) = cx.obs.as_mut() {
        let _t = simcore::arena::tag_scope(simcore::arena::TAG_HARNESS);
        o.push((w, false, 0, 0, mutable));
    }
    cx.acc = mix(&[cx.acc, w as u64, 0xAB5E]);
}

impl<'a, T: Tracked> Touch for &'a T {
    fn touch(self, cx: &mut Cx) {
        read(self, cx, false);
    }
}
impl<'a, T: Tracked> Touch for &'a mut T {
    fn touch(self, cx: &mut Cx) {
        let old = read(&*self, cx, true);
        write(self, old, cx);
    }
}
impl<'a, T: Tracked> Touch for Option<&'a T> {
    fn touch(self, cx: &mut Cx) {
        match self {
            Some(t) => {
                read(t, cx, false);
            }
            None => absent::<T>(cx, false),
        }
    }
}
impl<'a, T: Tracked> Touch for Option<&'a mut T> {
    fn touch(self, cx: &mut Cx) {
        match self {
            Some(t) => {
                let old = read(&*t, cx, true);
                write(t, old, cx);
            }
            None => absent::<T>(cx, true),
        }
    }
}
impl Touch for entity::Identifier {
    fn touch(self, cx: &mut Cx) {
        let (i, g) = self.verif_parts();
        cx.id = Some((i, g));
        cx.acc = mix(&[cx.acc, i as u64, g]);
    }
}
impl Touch for brood::query::view::Null {
    fn touch(self, _cx: &mut Cx) {}
}
impl<H: Touch, T: Touch> Touch for (H, T) {
    fn touch(self, cx: &mut Cx) {
        self.0.touch(cx);
        self.1.touch(cx);
    }
}

/// Start of a system body.
pub fn begin(task: u32, salt: u64, st: &mut SysState) -> Ctx {
    st.runs += 1;
    let span = sched::task_begin(task);
    fault::callback(Kind::System);
    Ctx { task, salt, span }
}

/// Read (and write through the mutable ones) the task's resource views.
pub fn touch_resources<V: Touch>(ctx: &Ctx, views: V) -> u64 {
    let mut cx = Cx::new(ctx, 0);
    cx.base = 0x100;
    views.touch(&mut cx);
    cx.acc
}

/// One iterator item (sequential system). Returns the item's contribution to the state fold.
pub fn touch_item<V: Touch>(ctx: &Ctx, rsum: u64, item: V) -> u64 {
    let mut cx = Cx::new(ctx, rsum);
    item.touch(&mut cx);
    mix(&[cx.acc, 0x17E4])
}

/// One item of a parallel iterator.
pub fn touch_par_item<V: Touch>(ctx: &Ctx, rsum: u64, item: V, fold: &AtomicU64) {
    fault::callback(Kind::ParItem);
    let mut cx = Cx::new(ctx, rsum);
    item.touch(&mut cx);
    fold.fetch_add(mix(&[cx.acc, 0x17E4]), Ordering::Relaxed);
}

/// Result of an entry sub-query.
pub fn touch_entry<V: Touch>(ctx: &Ctx, rsum: u64, views: V) -> u64 {
    let mut cx = Cx::new(ctx, rsum);
    cx.salt = mix(&[ctx.salt, 0xE7]);
    views.touch(&mut cx);
    mix(&[cx.acc, 0xE717])
}

pub fn end(ctx: Ctx, st: &mut SysState, fold: u64) {
    st.fold = st.fold.wrapping_add(fold);
    sched::task_end(ctx.span);
}

pub fn yield_now() {
    sched::yield_now();
}
