//! The E2 world: a 5-component registry (plain, zero-sized, boxed, 64-aligned, 16-aligned) and
//! four resources.

use brood::{entities, entities::Batch, entity, query::Views, resources, Query, Registry, Resources, World};
use simcore::rng::mix;
use simcore::zoo::*;
use std::collections::BTreeMap;

pub type Reg = Registry!(A, Z, H, O, W);
pub type Res = Resources!(P0, P1, P2, P3);
pub type Wd = World<Reg, Res>;
pub type Res0 = Resources!();
pub type Wd0 = World<Reg, Res0>;
pub const NC: usize = 5;
pub const COMP_NAMES: [&str; 5] = ["A", "Z", "H", "O", "W"];

/// Map a zoo type index to the local component index of this registry.
pub fn local_ix(zoo_ix: u8) -> usize {
    match zoo_ix {
        0 => 0,
        1 => 1,
        2 => 2,
        3 => 3,
        6 => 4,
        _ => 15,
    }
}

pub fn new_world(seed: u64) -> Wd {
    World::with_resources(resources!(
        <P0 as Tracked>::make(mix(&[seed, 1])),
        <P1 as Tracked>::make(mix(&[seed, 2])),
        <P2 as Tracked>::make(0),
        <P3 as Tracked>::make(mix(&[seed, 4]))
    ))
}

macro_rules! col {
    ($t:ty, $n:expr, $seed:expr, $c:expr) => {{
        let mut v: Vec<$t> = Vec::with_capacity($n);
        for r in 0..$n {
            v.push(<$t as Tracked>::make(mix(&[$seed, $c, r as u64])));
        }
        v
    }};
}

pub type Snapshot = BTreeMap<(usize, u64), [Option<u64>; NC]>;

pub mod full {
    use super::*;
    pub type TheWorld = Wd;
    include!("world5_fns.rs");
}
/// The same registry on a world without resources (`World::new()`).
pub mod nores {
    use super::*;
    pub type TheWorld = Wd0;
    include!("world5_fns.rs");
}
pub use full::{populate, snapshot};

/// What the schedule runner needs from a world, so that one runner serves both world types.
pub trait SimWorld: Clone {
    const HAS_RESOURCES: bool;
    fn new_world(seed: u64) -> Self;
    fn populate(&mut self, mask: u8, n: usize, seed: u64) -> Vec<entity::Identifier>;
    fn snapshot(&mut self) -> Result<Snapshot, String>;
    fn resource_vals(&self) -> [u64; 4];
    fn remove_entity(&mut self, id: entity::Identifier);
}

impl SimWorld for Wd {
    const HAS_RESOURCES: bool = true;
    fn new_world(seed: u64) -> Self {
        new_world(seed)
    }
    fn populate(&mut self, mask: u8, n: usize, seed: u64) -> Vec<entity::Identifier> {
        full::populate(self, mask, n, seed)
    }
    fn snapshot(&mut self) -> Result<Snapshot, String> {
        full::snapshot(self)
    }
    fn resource_vals(&self) -> [u64; 4] {
        resource_vals(self)
    }
    fn remove_entity(&mut self, id: entity::Identifier) {
        self.remove(id);
    }
}

impl SimWorld for Wd0 {
    const HAS_RESOURCES: bool = false;
    fn new_world(_seed: u64) -> Self {
        World::new()
    }
    fn populate(&mut self, mask: u8, n: usize, seed: u64) -> Vec<entity::Identifier> {
        nores::populate(self, mask, n, seed)
    }
    fn snapshot(&mut self) -> Result<Snapshot, String> {
        nores::snapshot(self)
    }
    fn resource_vals(&self) -> [u64; 4] {
        [0; 4]
    }
    fn remove_entity(&mut self, id: entity::Identifier) {
        self.remove(id);
    }
}

pub fn resource_vals(w: &Wd) -> [u64; 4] {
    [w.get::<P0, _>().val(), w.get::<P1, _>().val(), 0, w.get::<P3, _>().val()]
}

pub fn diff_snapshots(a: &Snapshot, b: &Snapshot) -> Option<String> {
    if a.len() != b.len() {
        return Some(format!("{} vs {} entities", a.len(), b.len()));
    }
    for (id, ra) in a {
        match b.get(id) {
            None => return Some(format!("entity {id:?} only on one side")),
            Some(rb) => {
                for c in 0..NC {
                    if ra[c] != rb[c] {
                        return Some(format!("entity {id:?} component {}: {:x?} vs {:x?}", COMP_NAMES[c], ra[c], rb[c]));
                    }
                }
            }
        }
    }
    None
}
