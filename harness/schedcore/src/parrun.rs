//! Running one parallel-query case under the simulated scheduler (C09).

use crate::body::*;
use crate::runner::{make_config, E2Config, E2Out, E2Replay, Viol};
use crate::world5::*;
use simcore::rng::{mix, Rng};
use simcore::sched::{self, SimConfig, Strategy};
use simcore::{arena, fault, ledger};
use std::collections::BTreeMap;
use std::io::Write;
use std::panic::{catch_unwind, AssertUnwindSafe};
use std::sync::Mutex;

pub type ItemObs = (Option<(usize, u64)>, Vec<(u16, bool, u64, usize, bool)>);

pub struct ParCase {
    pub name: &'static str,
    /// Sequential query with the same views and filter; `write` selects whether mutable views write.
    pub seq: fn(&mut Wd, bool, u64, &mut Vec<ItemObs>),
    /// Parallel query; every item is observed, written through its mutable views, and yields.
    pub par: fn(&mut Wd, u64, &Mutex<Vec<ItemObs>>),
    /// The same parallel query consumed by value-carrying consumers (read-only):
    /// `count()`, `map(..).sum()`, `map(..).collect()`.
    pub par_count: fn(&mut Wd) -> usize,
    pub par_sum: fn(&mut Wd, u64) -> u64,
    pub par_collect: fn(&mut Wd, u64) -> Vec<ItemObs>,
    /// Short-circuiting consumers (`find_any`, `any`, `all`, `try_for_each` by mode) looking for an item
    /// of weight `target`; every item the consumer was handed is pushed to the list. Returns "found".
    pub par_short: fn(&mut Wd, u64, u8, u64, &Mutex<Vec<ItemObs>>) -> bool,
}

/// A small per-item number for `sum()` (no overflow for any realistic item count).
pub fn item_weight(o: &ItemObs) -> u64 {
    let mut h = simcore::rng::Fnv::default();
    if let Some((i, g)) = o.0 {
        h.u64(i as u64);
        h.u64(g);
    }
    for x in &o.1 {
        h.u64(x.0 as u64);
        h.u64(x.1 as u64);
        h.u64(x.2);
    }
    h.0 & 0xFFFF_FFFF
}

pub fn observe<V: Touch>(task: u32, salt: u64, write: bool, item: V) -> ItemObs {
    let ctx = Ctx { task, salt, span: 0 };
    let mut cx = Cx::new(&ctx, 0x5EED);
    cx.write = write;
    cx.obs = Some(Vec::new());
    item.touch(&mut cx);
    (cx.id, cx.obs.take().unwrap())
}

fn viol(p: &str, o: &str, t: String) -> Viol {
    Viol { property: p.into(), oracle: o.into(), text: t, op: 0 }
}

fn sim_config(cfg: &E2Config) -> SimConfig {
    SimConfig {
        num_threads: cfg.num_threads.max(1),
        strategy: match cfg.strategy.as_str() {
            "sticky" => Strategy::Sticky { preempt_den: cfg.strategy_arg.max(1) },
            "newest" => Strategy::Newest,
            "oldest" => Strategy::Oldest,
            "starve" => Strategy::Starve { victim: cfg.strategy_arg },
            _ => Strategy::Random,
        },
        steal_num: cfg.steal_num.min(8),
        root_injected: cfg.root_injected,
        step_budget: cfg.step_budget,
        inline_only: cfg.inline_only || cfg!(miri),
    }
}

fn key(o: &ItemObs) -> (Option<(usize, u64)>, Vec<(u16, bool, u64)>) {
    (o.0, o.1.iter().map(|x| (x.0, x.1, x.2)).collect())
}

pub fn run_par_case(case: &ParCase, cfg: &E2Config, run_seed: u64, decisions: Option<Vec<u16>>) -> E2Out {
    let mut out = E2Out::default();
    out.run_seed = run_seed;
    let mut probes: BTreeMap<String, u64> = BTreeMap::new();
    let mut hit = |probes: &mut BTreeMap<String, u64>, k: &str, n: u64| *probes.entry(k.to_string()).or_insert(0) += n;
    let violation = (|| -> Result<(), Viol> {
        let mut w = new_world(run_seed);
        let mut live = 0usize;
        for (i, (mask, n)) in cfg.pop.iter().enumerate() {
            let got = populate(&mut w, *mask, *n as usize, mix(&[run_seed, i as u64, 0x90]));
            if cfg.emptied.contains(mask) {
                for id in &got {
                    w.remove(*id);
                }
                hit(&mut probes, "emptied_archetype", 1);
            } else {
                live += got.len();
                if got.len() == 1 {
                    hit(&mut probes, "archetype_of_length_one", 1);
                }
                if got.len() >= 20 {
                    hit(&mut probes, "large_archetype", 1);
                }
            }
        }
        if live == 0 {
            hit(&mut probes, "empty_world", 1);
        }
        if cfg.pop.len() >= 15 {
            hit(&mut probes, "crowded_world", 1);
        }
        if cfg.pop.iter().any(|(m, n)| *n >= 1024 && !cfg.emptied.contains(m)) {
            hit(&mut probes, "table_of_more_than_1024_rows", 1);
        }
        let mut wref = w.clone();
        let res_before = resource_vals(&w);
        let salt = mix(&[run_seed, 0x9A4]);
        // 1. sequential, read-only, on the world itself.
        let mut obs_seq = Vec::new();
        sched::begin(SimConfig { num_threads: 1, strategy: Strategy::Oldest, steal_num: 0, root_injected: false, step_budget: 50_000_000, inline_only: true }, run_seed, None);
        let r = catch_unwind(AssertUnwindSafe(|| (case.seq)(&mut w, false, salt, &mut obs_seq)));
        let _ = sched::end();
        if r.is_err() {
            return Err(viol("C03", "unexpected-panic", format!("sequential query panicked: {:?}", simcore::take_panic())));
        }
        // 1b. value-carrying consumers (count / sum / collect), read-only, under the simulated scheduler.
        {
            let expect_sum: u64 = obs_seq.iter().map(item_weight).sum();
            let mut expect_keys: Vec<_> = obs_seq.iter().map(key).collect();
            expect_keys.sort();
            for (pass, seed_off) in [("count", 1u64), ("sum", 2), ("collect", 3)] {
                sched::begin(sim_config(cfg), mix(&[run_seed, seed_off]), None);
                let prev = arena::set_tag(arena::TAG_SUT);
                let r = catch_unwind(AssertUnwindSafe(|| match pass {
                    "count" => ((case.par_count)(&mut w) as u64, Vec::new()),
                    "sum" => ((case.par_sum)(&mut w, salt), Vec::new()),
                    _ => (0, (case.par_collect)(&mut w, salt)),
                }));
                arena::set_tag(prev);
                let oc = sched::end();
                if let Some(f) = &oc.failure {
                    return Err(viol("C12", "no-progress", format!("parallel {pass} did not finish: {f}")));
                }
                let (n, items) = match r {
                    Ok(x) => x,
                    Err(p) => {
                        let msg = if let Some(a) = p.downcast_ref::<sched::SimAbort>() { a.0.clone() } else { simcore::take_panic().unwrap_or_else(|| "<panic>".into()) };
                        return Err(viol("C09", "unexpected-panic", format!("par_query(..).{pass}() panicked: {msg}")));
                    }
                };
                match pass {
                    "count" => {
                        if n as usize != obs_seq.len() {
                            return Err(viol("C09", "parallel-results-differ", format!("{}: par_query(..).iter.count() = {n}, the sequential query yields {} results", case.name, obs_seq.len())));
                        }
                    }
                    "sum" => {
                        if n != expect_sum {
                            return Err(viol("C09", "parallel-results-differ", format!("{}: par_query(..).iter.map(weight).sum() = {n:#x}, sequential {expect_sum:#x} ({} results)", case.name, obs_seq.len())));
                        }
                    }
                    _ => {
                        let mut got: Vec<_> = items.iter().map(key).collect();
                        got.sort();
                        if got != expect_keys {
                            return Err(viol("C09", "parallel-results-differ", format!("{}: par_query(..).iter.map(..).collect() yielded {} results, sequential {}", case.name, got.len(), expect_keys.len())));
                        }
                    }
                }
                if oc.stats.forks > 0 && !obs_seq.is_empty() {
                    hit(&mut probes, "value_consumer_split", 1);
                }
            }
            // 1c. short-circuiting consumers (the `full()` side of the consumer protocol): the verdict equals the
            // sequential one, nothing is handed out twice, and without a hit every result is handed out.
            {
                let mut rng = Rng::new(mix(&[run_seed, 0x5C]), 3);
                let mode = rng.below(4) as u8;
                let present = !obs_seq.is_empty() && rng.chance(1, 2);
                let target = if present { item_weight(&obs_seq[rng.below(obs_seq.len() as u64) as usize]) } else { 0xF_FFFF_FFFF };
                let seen = Mutex::new(Vec::new());
                sched::begin(sim_config(cfg), mix(&[run_seed, 4]), None);
                let prev = arena::set_tag(arena::TAG_SUT);
                let r = catch_unwind(AssertUnwindSafe(|| (case.par_short)(&mut w, salt, mode, target, &seen)));
                arena::set_tag(prev);
                let oc = sched::end();
                let name = ["find_any", "any", "all", "try_for_each"][mode as usize];
                if let Some(f) = &oc.failure {
                    return Err(viol("C12", "no-progress", format!("parallel {name} did not finish: {f}")));
                }
                let found = match r {
                    Ok(x) => x,
                    Err(p) => {
                        let msg = if let Some(a) = p.downcast_ref::<sched::SimAbort>() { a.0.clone() } else { simcore::take_panic().unwrap_or_else(|| "<panic>".into()) };
                        return Err(viol("C09", "unexpected-panic", format!("par_query(..).{name}() panicked: {msg}")));
                    }
                };
                if found != present {
                    return Err(viol("C09", "parallel-results-differ", format!("{}: par_query(..).iter.{name}(weight == {target:#x}) says {found}, the sequential results {} such an item", case.name, if present { "contain" } else { "do not contain" })));
                }
                let seen = seen.into_inner().unwrap_or_else(|p| p.into_inner());
                let mut got: Vec<_> = seen.iter().map(key).collect();
                got.sort();
                let mut rest = expect_keys.clone();
                for k in &got {
                    match rest.binary_search(k) {
                        Ok(i) => {
                            rest.remove(i);
                        }
                        Err(_) => {
                            return Err(viol("C09", "parallel-results-differ", format!("{}: par_query(..).iter.{name}() was handed a result the sequential query does not yield, or the same result twice ({k:?})", case.name)));
                        }
                    }
                }
                if !present && !rest.is_empty() {
                    return Err(viol("C09", "parallel-results-differ", format!("{}: par_query(..).iter.{name}() without a hit was handed {} results, sequential {}", case.name, got.len(), expect_keys.len())));
                }
                if present && !rest.is_empty() {
                    hit(&mut probes, "short_circuit_skipped_items", 1);
                }
                hit(&mut probes, "short_circuit_consumer", 1);
            }
            if let Some(e) = take_body_error() {
                return Err(viol("C05", "payload-integrity", e));
            }
        }
        // 2. parallel with writes, under the simulated scheduler.
        let obs_par = Mutex::new(Vec::new());
        if let Some((_, k)) = &cfg.fault {
            fault::begin_op();
            fault::arm(fault::Kind::ParItem, *k as u64, false);
        }
        sched::begin(sim_config(cfg), run_seed, decisions.clone());
        let prev = arena::set_tag(arena::TAG_SUT);
        let r = catch_unwind(AssertUnwindSafe(|| (case.par)(&mut w, salt, &obs_par)));
        arena::set_tag(prev);
        let outcome = sched::end();
        fault::disarm();
        let fired = fault::fired();
        out.decisions = outcome.decisions.clone();
        let st = &outcome.stats;
        for (k, v) in [
            ("forks", st.forks),
            ("steals", st.steals),
            ("inline_forks", st.inline_forks),
            ("yields", st.yields),
            ("switches", st.switches),
            ("blocks", st.blocks),
            ("steps", st.steps),
            ("decisions", st.decisions),
            ("max_live_threads", st.max_live_threads as u64),
        ] {
            out.sched.insert(k.to_string(), v);
        }
        out.sched.insert(format!("pool_{}", cfg.num_threads), 1);
        out.sched.insert(format!("strategy_{}", cfg.strategy), 1);
        out.states.push(outcome.shape_hash);
        out.states.push(outcome.order_hash ^ 0x5555);
        out.ops_executed = st.steps as u32;
        if let Some(e) = take_body_error() {
            return Err(viol(if fired { "C17" } else { "C05" }, "payload-integrity", e));
        }
        if let Some(f) = &outcome.failure {
            return Err(viol("C12", "no-progress", format!("parallel query did not finish: {f}")));
        }
        if let Err(p) = r {
            if p.downcast_ref::<fault::Injected>().is_some() && fired {
                *out.faults.entry("panic-paritem".into()).or_insert(0) += 1;
                hit(&mut probes, "fault_fired", 1);
                let _ = snapshot(&mut w).map_err(|e| viol("C17", "payload-integrity", e))?;
                drop(p);
                let prev = arena::set_tag(arena::TAG_SUT);
                drop(w);
                drop(wref);
                arena::set_tag(prev);
                if let Some(e) = ledger::first_error() {
                    return Err(viol("C17", "drop-ledger", e));
                }
                if let Some(e) = arena::error() {
                    return Err(viol("C17", "arena-audit", e));
                }
                return Ok(());
            }
            let msg = if let Some(a) = p.downcast_ref::<sched::SimAbort>() { a.0.clone() } else { simcore::take_panic().unwrap_or_else(|| "<panic>".into()) };
            return Err(viol("C09", "unexpected-panic", format!("par_query panicked: {msg}")));
        }
        if fired {
            return Err(viol("C17", "panic-swallowed", "an injected panic in a parallel item did not reach the caller".into()));
        }
        let obs_par = obs_par.into_inner().unwrap_or_else(|p| p.into_inner());
        // Same multiset of results, each entity once.
        let mut a: Vec<_> = obs_seq.iter().map(key).collect();
        let mut b: Vec<_> = obs_par.iter().map(key).collect();
        a.sort();
        b.sort();
        if a != b {
            let missing: Vec<_> = a.iter().filter(|x| !b.contains(x)).take(2).collect();
            let extra: Vec<_> = b.iter().filter(|x| !a.contains(x)).take(2).collect();
            return Err(viol(
                "C09",
                "parallel-results-differ",
                format!("{}: parallel iteration yielded {} results, sequential {}; missing (first 2) {missing:x?}; unexpected (first 2) {extra:x?}", case.name, b.len(), a.len()),
            ));
        }
        if !a.is_empty() {
            hit(&mut probes, "par_query_nonempty", 1);
        }
        if obs_par.iter().any(|o| o.1.iter().any(|x| !x.1)) {
            hit(&mut probes, "par_optional_view_absent", 1);
        }
        // No two results give access to the same value when one of them is mutable.
        let mut by_addr: BTreeMap<usize, (usize, bool)> = BTreeMap::new();
        for (i, o) in obs_par.iter().enumerate() {
            for x in &o.1 {
                if !x.1 || x.3 <= 1 {
                    continue;
                }
                match by_addr.get(&x.3) {
                    Some((j, m)) if *j != i && (*m || x.4) => {
                        return Err(viol(
                            "C09",
                            "parallel-items-alias",
                            format!("{}: results {j} and {i} of one parallel iteration both reach the value at {:#x} and at least one of them mutably", case.name, x.3),
                        ));
                    }
                    Some((j, m)) => {
                        let (j, m) = (*j, *m);
                        by_addr.insert(x.3, (j, m || x.4));
                    }
                    None => {
                        by_addr.insert(x.3, (i, x.4));
                    }
                }
            }
        }
        // Strands of the recorded accesses: items on different strands that touch one address.
        let mut by_addr2: BTreeMap<usize, Vec<(u32, bool)>> = BTreeMap::new();
        for acc in &outcome.accesses {
            by_addr2.entry(acc.addr).or_default().push((acc.strand, acc.write));
        }
        for (addr, v) in by_addr2 {
            for i in 0..v.len() {
                for j in i + 1..v.len() {
                    if (v[i].1 || v[j].1) && sched::logically_parallel(&outcome.strands[v[i].0 as usize], &outcome.strands[v[j].0 as usize]) {
                        return Err(viol("C09", "parallel-items-alias", format!("{}: the value at {addr:#x} is reachable from two logically parallel strands, at least once mutably", case.name)));
                    }
                }
            }
        }
        // 3. the sequential counterpart with writes on the clone gives the same world.
        let mut obs_ref = Vec::new();
        sched::begin(SimConfig { num_threads: 1, strategy: Strategy::Oldest, steal_num: 0, root_injected: false, step_budget: 50_000_000, inline_only: true }, run_seed, None);
        let r = catch_unwind(AssertUnwindSafe(|| (case.seq)(&mut wref, true, salt, &mut obs_ref)));
        let _ = sched::end();
        if r.is_err() {
            return Err(viol("C03", "unexpected-panic", "sequential query panicked".into()));
        }
        let after = snapshot(&mut w).map_err(|e| viol("C05", "payload-integrity", e))?;
        let after_ref = snapshot(&mut wref).map_err(|e| viol("C05", "payload-integrity", e))?;
        if let Some(d) = diff_snapshots(&after, &after_ref) {
            return Err(viol("C09", "parallel-update-differs", format!("{}: after updating each entity independently the world differs from the sequential counterpart: {d}", case.name)));
        }
        if resource_vals(&w) != res_before {
            return Err(viol("C15", "resource-changed", "a parallel query changed a resource".into()));
        }
        if outcome.stats.steals > 0 {
            hit(&mut probes, "run_with_steals", 1);
        }
        if outcome.stats.forks > 0 {
            hit(&mut probes, "parallel_iteration_split", 1);
        }
        let prev = arena::set_tag(arena::TAG_SUT);
        drop(w);
        drop(wref);
        arena::set_tag(prev);
        if let Some(e) = ledger::first_error() {
            return Err(viol("C04", "drop-ledger", e));
        }
        if let Some(e) = arena::error() {
            return Err(viol("C05", "arena-audit", e));
        }
        Ok(())
    })();
    out.violation = violation.err();
    out.probes = probes;
    out.callbacks = fault::totals();
    out
}

fn run_in_arena(case: &ParCase, cfg: &E2Config, run_seed: u64, decisions: Option<Vec<u16>>) -> E2Out {
    arena::begin_run();
    ledger::reset();
    fault::reset_run();
    let _ = simcore::take_panic();
    let _ = take_body_error();
    let mut o = run_par_case(case, cfg, run_seed, decisions);
    o.allocs = arena::stats().allocs;
    let mut h = simcore::rng::Fnv::default();
    for s in &o.states {
        h.u64(*s);
    }
    for d in &o.decisions {
        h.u64(*d as u64);
    }
    h.u64(o.violation.is_some() as u64);
    o.log_hash = format!("{:016x}", h.0);
    ledger::reset();
    arena::end_run();
    let c = crate::runner::copy_out(&o);
    drop(o);
    c
}

pub fn par_main_with(engine: &str, cases: &[ParCase]) {
    let argv: Vec<String> = std::env::args().collect();
    let mut profile = "C09".to_string();
    let (mut seed, mut from, mut count, mut index) = (1u64, 0u64, 1u64, 0u64);
    let mut thorough = false;
    let mut verbose = false;
    let mut file: Option<String> = None;
    let cmd = argv.get(1).cloned().unwrap_or_default();
    let mut i = 2;
    while i < argv.len() {
        let val = |i: &mut usize| -> String {
            *i += 1;
            argv.get(*i).cloned().unwrap_or_default()
        };
        match argv[i].as_str() {
            "--profile" => profile = val(&mut i),
            "--seed" => seed = val(&mut i).parse().unwrap_or(1),
            "--from" => from = val(&mut i).parse().unwrap_or(0),
            "--count" => count = val(&mut i).parse().unwrap_or(1),
            "--index" => index = val(&mut i).parse().unwrap_or(0),
            "--thorough" => thorough = true,
            "--verbose" => verbose = true,
            s if !s.starts_with("--") => file = Some(s.to_string()),
            _ => {}
        }
        i += 1;
    }
    simcore::install_panic_hook(verbose);
    if !cfg!(miri) {
        sched::init_pool(64);
    }
    simcore::install_rayon_seam();
    let stdout = std::io::stdout();
    let mut out = stdout.lock();
    writeln!(out, "HELLO {engine} cases={} arena={}", cases.len(), arena::audits_enabled()).unwrap();
    out.flush().unwrap();
    let _ = catch_unwind(|| std::panic::panic_any(fault::Injected { kind: fault::Kind::Clone, k: 0 }));
    let make = |idx: u64| -> (usize, u64, E2Config) {
        let case = (idx as usize) % cases.len();
        let mut h = simcore::rng::Fnv::default();
        h.bytes(engine.as_bytes());
        h.bytes(profile.as_bytes());
        let rs = mix(&[seed, 0xE3, h.0, idx]);
        let mut cfg = make_config(if profile == "C17" { "C17" } else { "C09" }, rs, thorough, 40, false);
        cfg.repeats = 1;
        if cfg.fault.is_some() {
            cfg.fault = Some(("paritem".into(), cfg.fault.as_ref().unwrap().1));
        }
        (case, rs, cfg)
    };
    let replay_of = |idx: u64, case: usize, rs: u64, cfg: &E2Config, r: Option<&E2Out>| E2Replay {
        engine: engine.to_string(),
        profile: profile.clone(),
        seed,
        index: idx,
        case,
        case_name: cases[case].name.to_string(),
        run_seed: rs,
        cfg: cfg.clone(),
        decisions: r.map(|r| r.decisions.clone()),
        expect: r.and_then(|r| r.violation.clone()),
        log_hash: r.map(|r| r.log_hash.clone()),
        ops: Vec::new(),
    };
    match cmd.as_str() {
        "run" => {
            let t0 = std::time::Instant::now();
            let mut done = 0;
            for idx in from..from + count {
                let (case, rs, cfg) = make(idx);
                writeln!(out, "START {idx} {rs}").unwrap();
                out.flush().unwrap();
                let mut r = run_in_arena(&cases[case], &cfg, rs, None);
                r.index = idx;
                r.case = case;
                let cfg_json = serde_json::to_string(&cfg).unwrap();
                let mut h = simcore::rng::Fnv::default();
                h.bytes(cfg_json.as_bytes());
                h.u64(case as u64);
                for d in &r.decisions {
                    h.u64(*d as u64);
                }
                r.history_hash = format!("{:016x}", h.0);
                r.op_hist.insert(format!("case:{}", cases[case].name), 1);
                writeln!(out, "RUN {}", serde_json::to_string(&r).unwrap()).unwrap();
                if r.violation.is_some() {
                    writeln!(out, "REPLAY {}", serde_json::to_string(&replay_of(idx, case, rs, &cfg, Some(&r))).unwrap()).unwrap();
                }
                out.flush().unwrap();
                done += 1;
            }
            writeln!(out, "DONE {done} {}", t0.elapsed().as_millis()).unwrap();
        }
        "emit" => {
            let (case, rs, cfg) = make(index);
            writeln!(out, "REPLAY {}", serde_json::to_string(&replay_of(index, case, rs, &cfg, None)).unwrap()).unwrap();
        }
        "replay" => {
            let f = file.unwrap_or_else(|| {
                eprintln!("replay needs a file");
                std::process::exit(2)
            });
            let text = std::fs::read_to_string(&f).unwrap_or_else(|e| {
                eprintln!("cannot read {f}: {e}");
                std::process::exit(2)
            });
            let rep: E2Replay = serde_json::from_str(&text).unwrap_or_else(|e| {
                eprintln!("cannot parse {f}: {e}");
                std::process::exit(2)
            });
            let case = rep.case % cases.len();
            let mut r = run_in_arena(&cases[case], &rep.cfg, rep.run_seed, rep.decisions.clone());
            r.case = case;
            writeln!(out, "RUN {}", serde_json::to_string(&r).unwrap()).unwrap();
            match &r.violation {
                Some(v) => {
                    writeln!(out, "VIOLATION property={} replay={} oracle={} :: {}", v.property, f, v.oracle, v.text).unwrap();
                    std::process::exit(1);
                }
                None => writeln!(out, "NO-VIOLATION").unwrap(),
            }
        }
        _ => {
            eprintln!("usage: {engine} run|emit|replay ...");
            std::process::exit(2);
        }
    }
}
