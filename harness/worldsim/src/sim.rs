//! The world simulator (E1): executes a history of operations against up to three worlds and a
//! trivial reference model, evaluating every oracle after every operation.

use crate::desc::*;
use crate::g;
use crate::medium;
use crate::obs::*;
use crate::ops::*;
use brood::entity;
use simcore::arena;
use simcore::fault::{self, Injected, Kind};
use simcore::ledger;
use simcore::rng::{mix, Fnv};
use simcore::zoo;
use std::collections::{BTreeMap, BTreeSet};
use std::panic::{catch_unwind, AssertUnwindSafe};

pub type Id = (usize, u64);

#[derive(Debug, Clone)]
pub struct Violation {
    pub prop: &'static str,
    pub oracle: String,
    pub text: String,
    pub op: u32,
}

fn viol(prop: &'static str, oracle: &str, text: String) -> Violation {
    Violation { prop, oracle: oracle.to_string(), text, op: 0 }
}

#[derive(Clone, Default, Debug)]
pub struct Model {
    pub ents: BTreeMap<Id, CompRec>,
    pub res: [(u64, u64); 4],
    /// Every identifier ever issued in this world's lineage; true = live.
    pub issued: BTreeMap<Id, bool>,
    pub peak_live: usize,
}

impl Model {
    fn live_ids(&self) -> Vec<Id> {
        self.ents.keys().copied().collect()
    }
    fn dead_ids(&self) -> Vec<Id> {
        self.issued.iter().filter(|(_, l)| !**l).map(|(i, _)| *i).collect()
    }
    fn note_peak(&mut self) {
        if self.ents.len() > self.peak_live {
            self.peak_live = self.ents.len();
        }
    }
}

pub struct Snap {
    pub enc: u8,
    pub data: medium::Stream,
    pub model: Model,
}

pub struct Slot {
    pub world: Option<g::Wd>,
    pub model: Model,
    pub snapshot: Option<Snap>,
    /// The world took an injected panic through a `&mut` operation: its logical content is no
    /// longer known, only memory safety and exactly-once drops are still demanded of it.
    pub tainted: bool,
}

pub enum Caught {
    Injected(Kind, u64),
    Other(String),
}

/// Run library code: allocations are attributed to the system under test, panics are caught.
pub fn sut<T>(f: impl FnOnce() -> T) -> Result<T, Caught> {
    let prev = arena::set_tag(arena::TAG_SUT);
    let r = catch_unwind(AssertUnwindSafe(f));
    arena::set_tag(prev);
    match r {
        Ok(v) => Ok(v),
        Err(p) => {
            if let Some(i) = p.downcast_ref::<Injected>() {
                let (k, n) = (i.kind, i.k);
                drop(p);
                Err(Caught::Injected(k, n))
            } else {
                let msg = simcore::take_panic().unwrap_or_else(|| "<panic>".to_string());
                drop(p);
                Err(Caught::Other(msg))
            }
        }
    }
}

fn mk_id(id: Id) -> entity::Identifier {
    entity::Identifier::verif_from_parts(id.0, id.1)
}

#[derive(Default)]
pub struct Probes(pub BTreeMap<&'static str, u64>);
impl Probes {
    pub fn hit(&mut self, name: &'static str) {
        *self.0.entry(name).or_insert(0) += 1;
    }
    pub fn add(&mut self, name: &'static str, n: u64) {
        *self.0.entry(name).or_insert(0) += n;
    }
}

pub struct Sim {
    pub slots: Vec<Slot>,
    pub opix: u32,
    pub log: Fnv,
    pub probes: Probes,
    pub lockstep: Option<(usize, usize)>,
    pub states: BTreeSet<u64>,
    /// Set once a panic was injected: leaks are then permitted, so ledger balance is not demanded.
    pub balance_off: bool,
    pub faults_fired: BTreeMap<String, u64>,
    pub last_ids: Vec<Id>,
    pub executed: Vec<&'static str>,
    pub verbose: bool,
    pub fault_armed_unfired: u64,
    pub tolerated_leak: bool,
    /// Mutation counters per slot and the latest copy relation `(source, version, copy, version)`:
    /// lock-step is only meaningful between a world and an unmodified copy of it.
    pub versions: Vec<u64>,
    pub link: Option<(usize, u64, usize, u64)>,
}

fn seed_vals(seed: u64) -> [u64; 4] {
    [mix(&[seed, 1]), mix(&[seed, 2]), 0, mix(&[seed, 4])]
}

impl Sim {
    pub fn new(nslots: usize, seed: u64, verbose: bool) -> Result<Sim, Violation> {
        let mut slots = Vec::new();
        for i in 0..nslots {
            let mut rec = [(0u64, 0u64); 4];
            let w = match sut(|| g::new_world(seed_vals(mix(&[seed, i as u64, 0xE5])), &mut rec)) {
                Ok(w) => w,
                Err(_) => return Err(viol("C01", "unexpected-panic", "panic in World::with_resources".into())),
            };
            let mut model = Model::default();
            model.res = rec;
            slots.push(Slot { world: Some(w), model, snapshot: None, tainted: false });
        }
        Ok(Sim {
            slots,
            opix: 0,
            log: Fnv::default(),
            probes: Probes::default(),
            lockstep: None,
            states: BTreeSet::new(),
            balance_off: false,
            faults_fired: BTreeMap::new(),
            last_ids: Vec::new(),
            executed: Vec::new(),
            verbose,
            fault_armed_unfired: 0,
            tolerated_leak: false,
            versions: vec![0; nslots],
            link: None,
        })
    }

    fn nslots(&self) -> usize {
        self.slots.len()
    }

    fn s(&self, slot: u8) -> usize {
        slot as usize % self.slots.len()
    }

    fn resolve(&self, si: usize, p: Pick) -> Option<Id> {
        let m = &self.slots[si].model;
        match p.kind {
            0 => {
                if m.ents.is_empty() {
                    None
                } else {
                    m.ents.keys().nth(p.k as usize % m.ents.len()).copied()
                }
            }
            _ => {
                let dead = m.dead_ids();
                if dead.is_empty() {
                    None
                } else {
                    // Prefer stale identifiers whose slot index is in use again.
                    let reused: Vec<Id> =
                        dead.iter().copied().filter(|d| m.ents.range((d.0, 0)..=(d.0, u64::MAX)).next().is_some()).collect();
                    if !reused.is_empty() && p.k % 2 == 0 {
                        Some(reused[(p.k as usize / 2) % reused.len()])
                    } else {
                        Some(dead[p.k as usize % dead.len()])
                    }
                }
            }
        }
    }

    /// Execute one operation followed by all oracles.
    pub fn step(&mut self, op: &Op) -> Result<(), Violation> {
        self.opix += 1;
        ledger::set_op(self.opix);
        fault::begin_op();
        self.log.u64(self.opix as u64);
        self.log.bytes(op.name().as_bytes());
        self.executed.push(op.name());
        let mut r = self.step_inner(op);
        let after_panic = self.balance_off;
        if after_panic && r.is_ok() {
            // A later call on a handle that outlived an injected panic may have panicked itself (the
            // harness goes on using the handle and passes on the first panic only). An ordinary safe
            // panic is allowed there; one from a debug-only check stands for undefined behaviour.
            if let Some(p) = simcore::take_panic() {
                if is_debug_only_check(&p) {
                    r = Err(viol("C17", "unexpected-panic", format!("after an injected panic, a later call on the same handle: {p}")));
                } else {
                    self.probes.hit("safe_panic_after_fault");
                }
            }
        }
        if let Err(v) = &r {
            // A world that took an injected panic may answer later calls with an ordinary (safe)
            // panic: the property only forbids double drops and touching freed memory. Panics
            // raised by checks that exist in debug builds only (arithmetic overflow, std's
            // unsafe-precondition checks) stand for undefined behaviour in release builds and
            // are reported.
            if after_panic && v.oracle == "unexpected-panic" && !is_debug_only_check(&v.text) {
                self.probes.hit("safe_panic_after_fault");
                for s in self.slots.iter_mut() {
                    if s.tainted {
                        s.model.ents.clear();
                    }
                }
                r = Ok(());
            }
        }
        r.map_err(|mut v| {
            v.op = self.opix;
            // Once a panic has been injected, memory-safety and exactly-once oracles speak for C17.
            if after_panic && matches!(v.oracle.as_str(), "arena-audit" | "unexpected-panic" | "payload-integrity" | "dump-arena-crosscheck" | "drop-ledger") {
                v.prop = "C17";
            }
            v
        })
    }

    fn step_inner(&mut self, op: &Op) -> Result<(), Violation> {
        // Lock-step bookkeeping.
        if let Some((a, b)) = self.lockstep {
            let touched: Vec<usize> = op.touched_slots().iter().map(|s| self.s(*s)).collect();
            let direct_b = op.mirror_slot().map(|s| self.s(s)) == Some(b);
            if touched.contains(&a) || touched.contains(&b) || direct_b {
                self.lockstep = None;
            }
        }
        for s in op.touched_slots().into_iter().chain(op.mirror_slot()) {
            let si = self.s(s);
            self.versions[si] += 1;
        }
        self.apply(op)?;
        if let (Some((a, b)), Some(ms)) = (self.lockstep, op.mirror_slot()) {
            if self.s(ms) == a && !self.slots[a].tainted && !self.slots[b].tainted {
                let ids_a = self.last_ids.clone();
                let op_b = op.with_slot(b as u8);
                self.apply(&op_b)?;
                self.versions[b] += 1;
                self.link = Some((a, self.versions[a], b, self.versions[b]));
                self.probes.hit("lockstep_mirrored_op");
                if ids_a != self.last_ids {
                    return Err(viol(
                        "C06",
                        "lockstep-identifiers",
                        format!(
                            "replica diverged from original: operation {} issued {:?} on the original and {:?} on the replica",
                            op.name(),
                            ids_a,
                            self.last_ids
                        ),
                    ));
                }
                if let Err(e) = same_content(&self.slots[a].model, &self.slots[b].model) {
                    return Err(viol("C06", "lockstep-content", format!("replica diverged from original after {}: {e}", op.name())));
                }
            }
        }
        self.check_all()
    }

    #[allow(dead_code)]
    fn _unused(&self) {}
}

fn is_debug_only_check(text: &str) -> bool {
    ["unsafe precondition", "with overflow", "misaligned pointer", "null pointer dereference", "unreachable_unchecked"]
        .iter()
        .any(|p| text.contains(p))
}

fn unexpected(c: Caught, what: &str, prop: &'static str) -> Violation {
    {
        match c {
            Caught::Injected(k, n) => viol(prop, "unexpected-injected-panic", format!("injected {} panic #{n} surfaced in {what} outside a fault operation", k.name())),
            Caught::Other(msg) => viol(prop, "unexpected-panic", format!("panic escaped from {what}: {msg}")),
        }
    }
}

impl Sim {
    fn apply(&mut self, op: &Op) -> Result<(), Violation> {
        self.last_ids.clear();
        match op {
            Op::Insert { slot, site, seed } => {
                let si = self.s(*slot);
                let site = *site as usize % g::INSERT_SITES.len();
                let seed = *seed;
                let mut rec = CompRec::default();
                let w = self.slots[si].world.as_mut().unwrap();
                let r = sut(|| g::insert(w, site, &|c| zoo::norm_for(c, mix(&[seed, c as u64])), &mut rec));
                let id = match r {
                    Ok(id) => id.verif_parts(),
                    Err(c) => return Err(unexpected(c, "World::insert", "C01")),
                };
                if self.slots[si].tainted {
                    return Ok(());
                }
                let (mask, order) = g::INSERT_SITES[site];
                if rec.mask() != mask {
                    return Err(viol("C01", "harness", "insert site mask mismatch".into()));
                }
                if order.len() >= 2 && order.windows(2).any(|w| w[0] > w[1]) {
                    self.probes.hit("insert_permuted_shape");
                }
                self.issue(si, &[id])?;
                self.slots[si].model.ents.insert(id, rec);
                self.slots[si].model.note_peak();
                self.last_ids.push(id);
                self.probes.hit("insert");
            }
            Op::Extend { slot, how, site, n, extra, seed } => {
                let si = self.s(*slot);
                let seed = *seed;
                let free_before = self.free_len(si);
                let (ids, recs): (Vec<Id>, Vec<CompRec>) = match how {
                    0 => {
                        let site = *site as usize % g::EXTEND_SITES.len();
                        // A batch without columns has no rows, whatever count was asked for.
                        let n = if g::EXTEND_SITES[site].0 == 0 { 0 } else { *n as usize };
                        let mut recs = vec![CompRec::default(); n];
                        let w = self.slots[si].world.as_mut().unwrap();
                        let extra = *extra as usize;
                        let r = sut(|| {
                            g::extend(w, site, n, extra, &|c, r| zoo::norm_for(c, mix(&[seed, c as u64, r as u64])), &mut recs)
                        });
                        match r {
                            Ok(ids) => (ids.iter().map(|i| i.verif_parts()).collect(), recs),
                            Err(c) => return Err(unexpected(c, "World::extend", "C01")),
                        }
                    }
                    3 => {
                        // A ragged batch through the safe constructor: must be refused (by panicking).
                        let site = *site as usize % g::EXTEND_SITES.len();
                        let ncols = g::EXTEND_SITES[site].1.len();
                        if ncols < 2 {
                            return Ok(());
                        }
                        let n = (*n as usize).max(1).min(12);
                        let bad_col = (seed >> 16) as usize % ncols;
                        let bad_len = match (seed >> 8) % 4 {
                            0 => n - 1,
                            1 => n + 1,
                            2 => 0,
                            _ => n / 2,
                        };
                        if bad_len == n {
                            return Ok(());
                        }
                        let w = self.slots[si].world.as_mut().unwrap();
                        let r = sut(|| g::extend_ragged(w, site, n, bad_col, bad_len, &|c, r| zoo::norm_for(c, mix(&[seed, c as u64, r as u64]))));
                        return match r {
                            Err(Caught::Other(_)) => {
                                self.probes.hit("ragged_batch_refused");
                                Ok(())
                            }
                            Err(c) => Err(unexpected(c, "Batch::new", "C05")),
                            Ok(ids) => Err(viol(
                                "C05",
                                "ragged-batch-stored",
                                format!(
                                    "Batch::new accepted {ncols} columns of which column {} has {bad_len} elements and the others {n}; extend stored them and returned {} identifiers: rows now reach beyond a column's elements",
                                    bad_col % ncols,
                                    ids.len()
                                ),
                            )),
                        };
                    }
                    1 => {
                        let site = *site as usize % g::CLONED_SITES.len();
                        let n = if g::CLONED_SITES[site].0 == 0 { 0 } else { *n as usize };
                        let w = self.slots[si].world.as_mut().unwrap();
                        let r = sut(|| g::extend_cloned(w, site, n, &|c| zoo::norm_for(c, mix(&[seed, c as u64]))));
                        let ids: Vec<Id> = match r {
                            Ok(ids) => ids.iter().map(|i| i.verif_parts()).collect(),
                            Err(c) => return Err(unexpected(c, "World::extend(entities!(..; n))", "C01")),
                        };
                        // Values are clones: serials are learnt from the world below (serial 0 = unknown).
                        let (mask, _) = g::CLONED_SITES[site];
                        let mut rec = CompRec::default();
                        for c in 0..g::NC {
                            if mask >> c & 1 == 1 {
                                rec.0[c] = Some((0, zoo::norm_for(c as u8, mix(&[seed, c as u64]))));
                            }
                        }
                        (ids, vec![rec; n])
                    }
                    _ if g::ROWS_SITES.is_empty() => return Ok(()),
                    _ => {
                        let site = *site as usize % g::ROWS_SITES.len();
                        let nrows = g::ROWS_SITES[site].2;
                        let mut recs = vec![CompRec::default(); nrows];
                        let w = self.slots[si].world.as_mut().unwrap();
                        let r = sut(|| g::extend_rows(w, site, &|c, r| zoo::norm_for(c, mix(&[seed, c as u64, r as u64])), &mut recs));
                        match r {
                            Ok(ids) => (ids.iter().map(|i| i.verif_parts()).collect(), recs),
                            Err(c) => return Err(unexpected(c, "World::extend(entities!(rows))", "C01")),
                        }
                    }
                };
                if self.slots[si].tainted {
                    return Ok(());
                }
                if ids.len() != recs.len() {
                    return Err(viol(
                        "C01",
                        "extend-identifier-count",
                        format!("extend of {} rows returned {} identifiers", recs.len(), ids.len()),
                    ));
                }
                let nrows = recs.len();
                if nrows == 0 {
                    self.probes.hit("extend_batch_of_zero");
                }
                if let Some(f) = free_before {
                    if f > 0 && nrows < f {
                        self.probes.hit("extend_batch_smaller_than_free_list");
                    } else if f > 0 && nrows == f {
                        self.probes.hit("extend_batch_equals_free_list");
                    } else if f > 0 && nrows > f {
                        self.probes.hit("extend_batch_larger_than_free_list");
                    }
                }
                self.issue(si, &ids)?;
                let learn = *how == 1;
                for (id, rec) in ids.iter().zip(recs.into_iter()) {
                    self.slots[si].model.ents.insert(*id, rec);
                }
                self.slots[si].model.note_peak();
                if learn && nrows > 0 {
                    self.learn_serials(si, &ids)?;
                }
                self.last_ids.extend(ids);
                self.probes.hit("extend");
            }
            Op::Remove { slot, pick } => {
                let si = self.s(*slot);
                let Some(id) = self.resolve(si, *pick) else { return Ok(()) };
                let live = self.slots[si].model.ents.contains_key(&id);
                if live {
                    // Did the swap-remove move another row? (probe only)
                    self.probes.hit("remove_live");
                } else {
                    self.probes.hit("remove_stale_identifier");
                    if self.slots[si].model.ents.range((id.0, 0)..=(id.0, u64::MAX)).next().is_some() {
                        self.probes.hit("stale_identifier_slot_reused");
                    }
                }
                let w = self.slots[si].world.as_mut().unwrap();
                if let Err(c) = sut(|| w.remove(mk_id(id))) {
                    return Err(unexpected(c, "World::remove", "C01"));
                }
                if live {
                    self.slots[si].model.ents.remove(&id);
                    self.slots[si].model.issued.insert(id, false);
                }
            }
            Op::Clear { slot } => {
                let si = self.s(*slot);
                let w = self.slots[si].world.as_mut().unwrap();
                if let Err(c) = sut(|| w.clear()) {
                    return Err(unexpected(c, "World::clear", "C01"));
                }
                let m = &mut self.slots[si].model;
                for (id, _) in std::mem::take(&mut m.ents) {
                    m.issued.insert(id, false);
                }
                self.probes.hit("clear");
            }
            Op::Entry { slot, pick, steps } => {
                let si = self.s(*slot);
                let Some(id) = self.resolve(si, *pick) else { return Ok(()) };
                let steps: Vec<(bool, u8, u64)> = if g::NC == 0 {
                    Vec::new()
                } else {
                    {
                    let nc = (g::NC as u8).max(1);
                    steps.iter().map(|(a, c, v)| (*a, *c % nc, zoo::norm_for(*c % nc, *v))).collect()
                    }
                };
                let mut recs = Vec::with_capacity(steps.len());
                let w = self.slots[si].world.as_mut().unwrap();
                let found = match sut(|| g::entry_steps(w, mk_id(id), &steps, &mut recs)) {
                    Ok(f) => f,
                    Err(c) => return Err(unexpected(c, "Entry::add/remove", "C01")),
                };
                if self.slots[si].tainted {
                    return Ok(());
                }
                let live = self.slots[si].model.ents.contains_key(&id);
                if found != live {
                    return Err(viol(
                        "C02",
                        if live { "live-identifier-unresolved" } else { "dead-identifier-resolves" },
                        format!("World::entry({id:?}) is_some = {found}, but the identifier is {}", if live { "live" } else { "dead" }),
                    ));
                }
                if live {
                    let rec = self.slots[si].model.ents.get_mut(&id).unwrap();
                    for ((add, c, _), r) in steps.iter().zip(recs.iter()) {
                        let was = rec.0[*c as usize].is_some();
                        if *add {
                            rec.0[*c as usize] = *r;
                            self.probes.hit(if was { "entry_add_overwrite" } else { "entry_add_shape_change" });
                        } else {
                            rec.0[*c as usize] = None;
                            self.probes.hit(if was { "entry_remove_present" } else { "entry_remove_absent" });
                        }
                    }
                    if steps.len() > 1 {
                        self.probes.hit("entry_multi_step_handle");
                    }
                }
            }
            Op::Query { slot, q, mode, split, salt } => {
                let si = self.s(*slot);
                if self.slots[si].tainted {
                    // Content unknown: only memory safety of what the query hands out is checked.
                    let q = *q as usize % g::QUERIES.len();
                    let mut out = Vec::new();
                    let w = self.slots[si].world.as_mut().unwrap();
                    match sut(|| g::query(w, q, MODE_FOLD, 0, *salt, &mut out)) {
                        Ok(_) => {}
                        Err(c) => return Err(unexpected(c, "World::query after a panic", "C17")),
                    }
                    for r in &out {
                        if let Some(e) = &r.err {
                            return Err(viol("C17", "payload-integrity", format!("query after an injected panic: {e}")));
                        }
                    }
                    return Ok(());
                }
                let q = *q as usize % g::QUERIES.len();
                let d = &g::QUERIES[q];
                let mut out = Vec::new();
                let w = self.slots[si].world.as_mut().unwrap();
                // Modes that do not hand out every item are for read-only consumption.
                let mode = if salt.is_some() { *mode % 3 } else { *mode % NMODES };
                let r = sut(|| g::query(w, q, mode, *split as usize, *salt, &mut out));
                let n = match r {
                    Ok(Ok(n)) => n,
                    Ok(Err(e)) => return Err(viol("C03", "query-size-hint", format!("query #{q} {d:?}: {e}"))),
                    Err(c) => return Err(unexpected(c, "World::query", "C03")),
                };
                let slack = LAST_SLACK.load(std::sync::atomic::Ordering::Relaxed);
                self.check_query_results_partial(si, d, &out, n, slack, *salt, &format!("World::query #{q} (mode {mode})"))?;
                self.probes.hit("query");
                if salt.is_some() && d.writes() {
                    self.probes.hit("query_mutating");
                }
            }
            Op::EntryQuery { slot, pick, q, salt } => {
                let si = self.s(*slot);
                if self.slots[si].tainted {
                    return Ok(());
                }
                let Some(id) = self.resolve(si, *pick) else { return Ok(()) };
                let q = *q as usize % g::ENTRY_QUERIES.len();
                let d = &g::ENTRY_QUERIES[q];
                let w = self.slots[si].world.as_mut().unwrap();
                let r = match sut(|| g::entry_query(w, mk_id(id), q, *salt)) {
                    Ok(r) => r,
                    Err(c) => return Err(unexpected(c, "Entry::query", "C03")),
                };
                self.check_single(si, id, d, r, *salt, &format!("World::entry({id:?}).query #{q} {d:?}"))?;
                self.probes.hit("entry_query");
            }
            Op::EntriesQuery { slot, q, picks, limit, salt } => {
                let si = self.s(*slot);
                if self.slots[si].tainted {
                    return Ok(());
                }
                let q = *q as usize % g::ENTRIES_QUERIES.len();
                let d = &g::ENTRIES_QUERIES[q];
                let targets: Vec<Id> = picks.iter().filter_map(|p| self.resolve(si, *p)).collect();
                let tids: Vec<entity::Identifier> = targets.iter().map(|t| mk_id(*t)).collect();
                let mut iter_out = Vec::new();
                let mut sub_out = Vec::new();
                let w = self.slots[si].world.as_mut().unwrap();
                let r = sut(|| g::entries_query(w, q, &tids, *limit as usize, *salt, &mut iter_out, &mut sub_out));
                let n = match r {
                    Ok(Ok(n)) => n,
                    Ok(Err(e)) => return Err(viol("C03", "query-size-hint", e)),
                    Err(c) => return Err(unexpected(c, "World::query with entries", "C03")),
                };
                // Sub-queries first (they ran interleaved, but iterator views and entry views are
                // disjoint for writes, so the iterator observations are unaffected by them).
                self.check_query_results(si, &d.iter, &iter_out, n, None, &format!("World::query(entries) #{q} iterator"))?;
                for (t, r) in sub_out {
                    let id = targets[t];
                    self.check_single(si, id, &d.sub, r, *salt, &format!("entries.entry({id:?}).query #{q} sub {:?} of entry views {:?}", d.sub, d.entry_views))?;
                    self.probes.hit("entries_sub_query");
                }
                self.probes.hit("entries_query");
            }
            Op::Reserve { slot, site, n } => {
                let si = self.s(*slot);
                let site = *site as usize % g::RESERVE_SITES.len();
                let w = self.slots[si].world.as_mut().unwrap();
                // 65535 stands for an amount no allocation can satisfy: the call has to refuse it by
                // panicking ("capacity overflow") and leave the world as it was.
                let amount = if *n == u16::MAX { usize::MAX } else { *n as usize };
                match sut(|| g::reserve(w, site, amount)) {
                    Ok(()) => {}
                    Err(Caught::Other(msg)) if amount == usize::MAX && msg.contains("capacity overflow") => {
                        self.probes.hit("reserve_overflow_refused");
                    }
                    Err(c) => return Err(unexpected(c, "World::reserve", "C05")),
                }
                self.probes.hit("reserve");
            }
            Op::Shrink { slot } => {
                let si = self.s(*slot);
                let w = self.slots[si].world.as_mut().unwrap();
                if let Err(c) = sut(|| w.shrink_to_fit()) {
                    return Err(unexpected(c, "World::shrink_to_fit", "C05"));
                }
                self.probes.hit("shrink_to_fit");
            }
            Op::Clone { src, dst } => {
                let (a, b) = (self.s(*src), self.s(*dst));
                if a == b || self.slots[a].tainted {
                    return Ok(());
                }
                let w = self.slots[a].world.as_ref().unwrap();
                let new = match sut(|| w.clone()) {
                    Ok(n) => n,
                    Err(c) => return Err(unexpected(c, "World::clone", "C10")),
                };
                let eq = sut(|| (new == *self.slots[a].world.as_ref().unwrap(), *self.slots[a].world.as_ref().unwrap() == new));
                self.replace_world(b, new)?;
                match eq {
                    Ok((true, true)) => {}
                    Ok((x, y)) => {
                        return Err(viol("C10", "clone-not-equal", format!("clone == original is {x}, original == clone is {y}")))
                    }
                    Err(c) => return Err(unexpected(c, "World::eq", "C16")),
                }
                self.adopt_copy(a, b, "C10", "clone")?;
                self.probes.hit("clone");
            }
            Op::CloneFrom { src, dst } => {
                let (a, b) = (self.s(*src), self.s(*dst));
                if a == b || self.slots[a].tainted {
                    return Ok(());
                }
                if self.has_shape_not_in(b, a) {
                    self.probes.hit("clone_from_destination_has_extra_archetypes");
                }
                let (wa, wb) = two_mut(&mut self.slots, a, b);
                let src_w = wa.world.as_ref().unwrap();
                let dst_w = wb.world.as_mut().unwrap();
                if let Err(c) = sut(|| dst_w.clone_from(src_w)) {
                    return Err(unexpected(c, "World::clone_from", "C10"));
                }
                self.slots[b].tainted = false;
                self.slots[b].snapshot = None;
                self.adopt_copy(a, b, "C10", "clone_from")?;
                self.probes.hit("clone_from");
            }
            Op::RoundTrip { src, dst, enc, in_place } => {
                let (a, b) = (self.s(*src), self.s(*dst));
                if self.slots[a].tainted {
                    return Ok(());
                }
                let enc = self.enc_for(a, *enc);
                let w = self.slots[a].world.as_ref().unwrap();
                let stream = match sut(|| medium::serialize(w, enc)) {
                    Ok(Ok(s)) => s,
                    Ok(Err(e)) => return Err(viol("C06", "serialize-failed", format!("serialization (encoding {enc}) failed: {e}"))),
                    Err(c) => return Err(unexpected(c, "World::serialize", "C06")),
                };
                self.probes.add("stream_units", stream.len() as u64);
                let new = if *in_place && a != b && !self.slots[b].tainted {
                    // Over the world that is in the destination slot.
                    let mut place = self.slots[b].world.take().unwrap();
                    let r = sut(|| medium::deserialize_in_place(&stream, &mut place));
                    match r {
                        Ok(Ok(())) => {
                            self.probes.hit("deserialize_in_place");
                            // The replica is where it belongs already.
                            self.slots[b].world = Some(place);
                            self.slots[b].tainted = false;
                            self.slots[b].snapshot = None;
                            None
                        }
                        Ok(Err(e)) => {
                            // The place may have been modified; it has to be a usable world of unknown content.
                            self.slots[b].world = Some(place);
                            self.slots[b].tainted = true;
                            self.balance_off = true;
                            self.lockstep = None;
                            return Err(viol("C06", "roundtrip-deserialize-failed", format!("deserializing the library's own output in place (encoding {enc}) failed: {e}")));
                        }
                        Err(c) => {
                            self.slots[b].world = Some(place);
                            return Err(unexpected(c, "World::deserialize_in_place", "C06"));
                        }
                    }
                } else {
                    match sut(|| medium::deserialize(&stream)) {
                        Ok(Ok(n)) => Some(n),
                        Ok(Err(e)) => {
                            return Err(viol(
                                "C06",
                                "roundtrip-deserialize-failed",
                                format!("deserializing the library's own output (encoding {enc}) failed: {e}"),
                            ))
                        }
                        Err(c) => return Err(unexpected(c, "World::deserialize", "C06")),
                    }
                };
                let eq = sut(|| {
                    let n = new.as_ref().unwrap_or_else(|| self.slots[b].world.as_ref().unwrap());
                    let o = self.slots[a].world.as_ref().unwrap();
                    (n == o, o == n)
                });
                match eq {
                    Ok((true, true)) => {}
                    Ok((x, y)) => {
                        if let Some(new) = new {
                            let _ = self.replace_world(b, new);
                        }
                        return Err(viol(
                            "C06",
                            "roundtrip-not-equal",
                            format!("round trip (encoding {enc}): replica == original is {x}, original == replica is {y}"),
                        ));
                    }
                    Err(c) => return Err(unexpected(c, "World::eq", "C16")),
                }
                if a == b {
                    // Replace the original by its replica (crash + restore in one step).
                    let old_model = self.slots[a].model.clone();
                    self.replace_world(a, new.unwrap())?;
                    self.slots[a].model = old_model;
                    self.relearn_after_copy(a, "C06", "round trip")?;
                } else {
                    if let Some(new) = new {
                        self.replace_world(b, new)?;
                    }
                    self.adopt_copy(a, b, "C06", "round trip")?;
                }
                if self.slots[a].model.ents.is_empty() {
                    self.probes.hit("roundtrip_of_empty_world");
                }
                if self.free_len(a).map_or(false, |f| f > 0) {
                    self.probes.hit("roundtrip_with_nonempty_free_list");
                }
                self.probes.hit(match enc {
                    0 => "roundtrip_tokens_readable",
                    1 => "roundtrip_tokens_compact",
                    2 => "roundtrip_json",
                    3 => "roundtrip_tokens_compact_struct_as_seq",
                    _ => "roundtrip_json_value_sorted_keys",
                });
            }
            Op::Snapshot { slot, enc } => {
                let si = self.s(*slot);
                if self.slots[si].tainted {
                    return Ok(());
                }
                let enc = self.enc_for(si, *enc);
                let w = self.slots[si].world.as_ref().unwrap();
                let stream = match sut(|| medium::serialize(w, enc)) {
                    Ok(Ok(s)) => s,
                    Ok(Err(e)) => return Err(viol("C06", "serialize-failed", format!("serialization (encoding {enc}) failed: {e}"))),
                    Err(c) => return Err(unexpected(c, "World::serialize", "C06")),
                };
                let model = self.slots[si].model.clone();
                self.slots[si].snapshot = Some(Snap { enc, data: stream, model });
                self.probes.hit("snapshot");
            }
            Op::Crash { slot } => {
                let si = self.s(*slot);
                let snap = self.slots[si].snapshot.take();
                match snap {
                    None => {
                        self.fresh_world(si)?;
                    }
                    Some(snap) => {
                        let new = match sut(|| medium::deserialize(&snap.data)) {
                            Ok(Ok(n)) => n,
                            Ok(Err(e)) => {
                                return Err(viol("C06", "restore-failed", format!("restoring a snapshot (encoding {}) failed: {e}", snap.enc)))
                            }
                            Err(c) => return Err(unexpected(c, "World::deserialize", "C06")),
                        };
                        self.replace_world(si, new)?;
                        self.slots[si].model = snap.model.clone();
                        self.relearn_after_copy(si, "C06", "crash + restore")?;
                        self.slots[si].snapshot = Some(snap);
                        self.probes.hit("crash_restore_from_snapshot");
                    }
                }
                *self.faults_fired.entry("crash".into()).or_insert(0) += 1;
            }
            Op::DropWorld { slot } => {
                let si = self.s(*slot);
                self.fresh_world(si)?;
                self.probes.hit("drop_world");
            }
            Op::ResView { slot, site, salt, via } => {
                let si = self.s(*slot);
                let site = *site as usize % g::RESOURCE_VIEWS.len();
                let views = g::RESOURCE_VIEWS[site];
                let mut rec = Rec::new(None);
                let w = self.slots[si].world.as_mut().unwrap();
                if *via == 0 {
                    if let Err(c) = sut(|| g::view_resources(w, site, *salt, &mut rec)) {
                        return Err(unexpected(c, "World::view_resources", "C15"));
                    }
                } else {
                    // The same views as the resource views of a query, the way systems receive them.
                    let n = match sut(|| g::query_resources(w, site, *via - 1, *salt, &mut rec)) {
                        Ok(n) => n,
                        Err(c) => return Err(unexpected(c, "World::query (resource views)", "C15")),
                    };
                    let want = self.slots[si].model.ents.len();
                    if n != want && !self.slots[si].tainted {
                        return Err(viol("C03", "query-results", format!("query with resource views (site {site}, via {via}) iterated {n} items, expected {want}")));
                    }
                    self.probes.hit("query_resource_views");
                }
                if let Some(e) = rec.err {
                    return Err(viol("C15", "resource-integrity", e));
                }
                if rec.items.len() != views.len() {
                    return Err(viol("C15", "resource-view-count", format!("{} views requested, {} observed", views.len(), rec.items.len())));
                }
                if self.slots[si].tainted {
                    // Content unknown after an interrupted operation: integrity (checked above) only.
                    return Ok(());
                }
                for (it, (k, r)) in rec.items.iter().zip(views.iter()) {
                    let want = self.slots[si].model.res[*r as usize];
                    if it.comp != zoo::RES_IX_BASE + *r || (it.serial, it.val) != want {
                        return Err(viol(
                            "C15",
                            "resource-view-wrong",
                            format!(
                                "view_resources site {site} {views:?}: view of resource {} (kind {k}) returned type index {} serial {} val {:#x}, model has serial {} val {:#x}",
                                zoo::RESOURCE_NAMES[*r as usize],
                                it.comp,
                                it.serial,
                                it.val,
                                want.0,
                                want.1
                            ),
                        ));
                    }
                    if let Some(nv) = it.new_val {
                        self.slots[si].model.res[*r as usize].1 = nv;
                    }
                }
                self.probes.hit("view_resources");
            }
            Op::ResGetMut { slot, which, salt } => {
                let si = self.s(*slot);
                if g::NRES == 0 {
                    return Ok(());
                }
                let which = *which as usize % g::NRES;
                let w = self.slots[si].world.as_mut().unwrap();
                let r = match sut(|| g::get_mut_resource(w, which, *salt)) {
                    Ok(Ok(r)) => r,
                    Ok(Err(e)) => return Err(viol("C15", "resource-integrity", e)),
                    Err(c) => return Err(unexpected(c, "World::get_mut", "C15")),
                };
                if self.slots[si].tainted {
                    return Ok(());
                }
                let want = self.slots[si].model.res[which];
                if (r.0, r.1) != want {
                    return Err(viol(
                        "C15",
                        "resource-get-mut-wrong",
                        format!("get_mut::<{}> returned serial {} val {:#x}, model has {:?}", zoo::RESOURCE_NAMES[which], r.0, r.1, want),
                    ));
                }
                self.slots[si].model.res[which].1 = r.2;
                self.probes.hit("get_mut_resource");
            }
            Op::EqCheck { a, b } => {
                let (a, b) = (self.s(*a), self.s(*b));
                if self.slots[a].tainted || self.slots[b].tainted {
                    return Ok(());
                }
                let wa = self.slots[a].world.as_ref().unwrap();
                let wb = self.slots[b].world.as_ref().unwrap();
                let r = match sut(|| (wa == wb, wb == wa, wa == wa)) {
                    Ok(r) => r,
                    Err(c) => return Err(unexpected(c, "World::eq", "C16")),
                };
                if !r.2 {
                    return Err(viol("C16", "eq-not-reflexive", format!("world in slot {a} != itself")));
                }
                if r.0 != r.1 {
                    return Err(viol("C16", "eq-not-symmetric", format!("slot{a} == slot{b} is {}, slot{b} == slot{a} is {}", r.0, r.1)));
                }
                let same = same_content(&self.slots[a].model, &self.slots[b].model);
                if r.0 {
                    self.probes.hit("eq_true");
                    let linked = match self.link {
                        Some((x, vx, y, vy)) => (x == a && y == b && vx == self.versions[a] && vy == self.versions[b]) || (x == b && y == a && vx == self.versions[b] && vy == self.versions[a]),
                        None => false,
                    };
                    if !linked && !self.slots[a].model.ents.is_empty() {
                        // Equal although neither is an unmodified copy of the other.
                        self.probes.hit("eq_true_after_separate_histories");
                    }
                    if let Err(e) = same {
                        return Err(viol("C16", "eq-true-but-different", format!("worlds compare equal but differ: {e}")));
                    }
                } else {
                    self.probes.hit("eq_false");
                    if same.is_ok() {
                        self.probes.hit("eq_false_same_content");
                    }
                }
            }
            Op::DebugFmt { slot } => {
                let si = self.s(*slot);
                let w = self.slots[si].world.as_ref().unwrap();
                match sut(|| format!("{w:?}").len()) {
                    Ok(n) => self.probes.add("debug_bytes", n as u64),
                    Err(c) => return Err(unexpected(c, "World::fmt", "C05")),
                }
            }
            Op::Lockstep { a, b, on } => {
                let (a, b) = (self.s(*a), self.s(*b));
                if *on && a != b && !self.slots[a].tainted && !self.slots[b].tainted {
                    let linked = match self.link {
                        Some((x, vx, y, vy)) => {
                            (x == a && y == b && vx == self.versions[a] && vy == self.versions[b])
                                || (x == b && y == a && vx == self.versions[b] && vy == self.versions[a])
                        }
                        None => false,
                    };
                    if linked
                        && same_content(&self.slots[a].model, &self.slots[b].model).is_ok()
                        && self.slots[a].model.issued == self.slots[b].model.issued
                    {
                        self.lockstep = Some((a, b));
                        self.probes.hit("lockstep_begun");
                    }
                } else {
                    self.lockstep = None;
                }
            }
            Op::Corrupt { src, dst, enc, faults, in_place } => {
                let enc = self.enc_for(self.s(*src), *enc);
                return self.corrupt(self.s(*src), self.s(*dst), enc, faults, *in_place);
            }
            Op::FaultAt { kind, k, as_error, inner } => {
                return self.fault_at(kind, *k, *as_error, inner);
            }
        }
        Ok(())
    }

    /// The text encodings of a huge world (and the `Value` tree of one of them) would not fit the
    /// simulator's arena: huge worlds travel in the compact token encoding.
    fn enc_for(&self, si: usize, enc: u8) -> u8 {
        let enc = enc % medium::NENC;
        let big = self.slots[si].model.ents.len() > 20_000 || self.slots[si].world.as_ref().map_or(false, |w| w.len() > 20_000);
        if (enc == 2 || enc == 4) && big {
            1
        } else {
            enc
        }
    }

    fn free_len(&self, si: usize) -> Option<usize> {
        let w = self.slots[si].world.as_ref()?;
        Some(w.verif_dump().free.len())
    }

    fn has_shape_not_in(&self, b: usize, a: usize) -> bool {
        let shapes_a: BTreeSet<u16> = self.slots[a].model.ents.values().map(|r| r.mask()).collect();
        let wb = self.slots[b].world.as_ref().unwrap();
        wb.verif_dump().archetypes.iter().any(|ar| {
            let m = bytes_to_mask(&ar.identifier_bytes);
            !shapes_a.contains(&m)
        })
    }

    /// Register freshly issued identifiers; they must be new to the lineage.
    fn issue(&mut self, si: usize, ids: &[Id]) -> Result<(), Violation> {
        let m = &mut self.slots[si].model;
        let mut seen = BTreeSet::new();
        for id in ids {
            if let Some(live) = m.issued.get(id) {
                return Err(viol(
                    "C02",
                    "identifier-not-fresh",
                    format!(
                        "identifier {id:?} was returned again: it was already issued in this world's lifetime (currently {})",
                        if *live { "live" } else { "dead" }
                    ),
                ));
            }
            if !seen.insert(*id) {
                return Err(viol("C02", "identifier-not-fresh", format!("identifier {id:?} returned twice by one call")));
            }
            if id.1 > 0 {
                self.probes.hit("identifier_slot_reused");
            }
        }
        for id in ids {
            m.issued.insert(*id, true);
        }
        Ok(())
    }

    /// Replace the world of a slot (dropping the old one under the SUT tag).
    fn replace_world(&mut self, si: usize, new: g::Wd) -> Result<(), Violation> {
        let old = self.slots[si].world.take();
        self.slots[si].world = Some(new);
        self.slots[si].tainted = false;
        self.slots[si].snapshot = None;
        if let Err(c) = sut(move || drop(old)) {
            return Err(unexpected(c, "drop(World)", "C04"));
        }
        Ok(())
    }

    fn fresh_world(&mut self, si: usize) -> Result<(), Violation> {
        let mut rec = [(0u64, 0u64); 4];
        let seed = mix(&[self.opix as u64, si as u64, 0xF2E5]);
        let w = match sut(|| g::new_world(seed_vals(seed), &mut rec)) {
            Ok(w) => w,
            Err(c) => return Err(unexpected(c, "World::with_resources", "C01")),
        };
        self.replace_world(si, w)?;
        let mut model = Model::default();
        model.res = rec;
        self.slots[si].model = model;
        Ok(())
    }

    /// Slot `b` now holds a copy (clone / clone_from / round trip) of slot `a`: its model is the
    /// source's content with fresh serials learnt from the copy itself.
    fn adopt_copy(&mut self, a: usize, b: usize, prop: &'static str, what: &str) -> Result<(), Violation> {
        self.slots[b].model = self.slots[a].model.clone();
        self.relearn_after_copy(b, prop, what)?;
        self.link = Some((a, self.versions[a], b, self.versions[b]));
        Ok(())
    }

    /// The world in `si` is a copy of what `slots[si].model` describes, but with values that were
    /// constructed independently: check ids and vals, require all serials to be new and unique,
    /// and store them.
    fn relearn_after_copy(&mut self, si: usize, prop: &'static str, what: &str) -> Result<(), Violation> {
        let (got, _) = self.extract(si, prop)?;
        let other_serials = self.all_serials_except(si);
        let m = &mut self.slots[si].model;
        if got.len() != m.ents.len() {
            return Err(viol(
                prop,
                "copy-content",
                format!("after {what} the copy holds {} entities, the source held {}", got.len(), m.ents.len()),
            ));
        }
        let mut seen = BTreeSet::new();
        for (id, want) in m.ents.iter_mut() {
            let Some(have) = got.get(id) else {
                return Err(viol(prop, "copy-content", format!("after {what} entity {id:?} is missing from the copy")));
            };
            for c in 0..g::NC {
                match (want.0[c], have.0[c]) {
                    (None, None) => {}
                    (Some((_, wv)), Some((hs, hv))) => {
                        if wv != hv {
                            return Err(viol(
                                prop,
                                "copy-content",
                                format!("after {what} entity {id:?} component {} has value {hv:#x}, source had {wv:#x}", zoo::COMPONENT_NAMES[c]),
                            ));
                        }
                        if zoo::HAS_SERIAL[c] {
                            if other_serials.contains(&hs) || !seen.insert(hs) {
                                return Err(viol(
                                    prop,
                                    "copy-shares-value",
                                    format!(
                                        "after {what} entity {id:?} component {} is the very same value object (serial {hs}) as one owned elsewhere",
                                        zoo::COMPONENT_NAMES[c]
                                    ),
                                ));
                            }
                        }
                        want.0[c] = Some((hs, hv));
                    }
                    (w, h) => {
                        return Err(viol(
                            prop,
                            "copy-content",
                            format!("after {what} entity {id:?} component {}: source {:?}, copy {:?}", zoo::COMPONENT_NAMES[c], w.map(|x| x.1), h.map(|x| x.1)),
                        ))
                    }
                }
            }
        }
        // Resources.
        let w = self.slots[si].world.as_ref().unwrap();
        let res = match sut(|| g::read_resources(w)) {
            Ok(Ok(r)) => r,
            Ok(Err(e)) => return Err(viol("C15", "resource-integrity", e)),
            Err(c) => return Err(unexpected(c, "World::get", "C15")),
        };
        let m = &mut self.slots[si].model;
        for r in 0..g::NRES {
            if res[r].1 != m.res[r].1 {
                return Err(viol(
                    "C15",
                    "resource-not-copied",
                    format!("after {what} resource {} has value {:#x}, source had {:#x}", zoo::RESOURCE_NAMES[r], res[r].1, m.res[r].1),
                ));
            }
            if zoo::RES_HAS_SERIAL[r] && other_serials.contains(&res[r].0) {
                return Err(viol("C15", "resource-shared", format!("after {what} resource {} is shared with another world", zoo::RESOURCE_NAMES[r])));
            }
            m.res[r] = res[r];
        }
        Ok(())
    }

    /// After `extend` with cloned values: fill in the serials of the given entities.
    fn learn_serials(&mut self, si: usize, ids: &[Id]) -> Result<(), Violation> {
        let (got, _) = self.extract(si, "C01")?;
        let other = self.all_serials_except(usize::MAX);
        let mut seen = BTreeSet::new();
        let m = &mut self.slots[si].model;
        for id in ids {
            let Some(have) = got.get(id) else {
                return Err(viol("C01", "model-extraction", format!("entity {id:?} returned by extend is not in the world")));
            };
            let want = m.ents.get_mut(id).unwrap();
            for c in 0..g::NC {
                if let (Some((0, wv)), Some((hs, hv))) = (want.0[c], have.0[c]) {
                    if zoo::HAS_SERIAL[c] {
                        if wv != hv {
                            return Err(viol("C01", "model-extraction", format!("entity {id:?} component {} has value {hv:#x}, expected {wv:#x}", zoo::COMPONENT_NAMES[c])));
                        }
                        if other.contains(&hs) || !seen.insert(hs) {
                            return Err(viol("C04", "value-shared", format!("entity {id:?} component {} shares serial {hs} with another entity", zoo::COMPONENT_NAMES[c])));
                        }
                        want.0[c] = Some((hs, hv));
                    }
                }
            }
        }
        Ok(())
    }

    fn all_serials_except(&self, skip: usize) -> BTreeSet<u64> {
        let mut s = BTreeSet::new();
        for (i, sl) in self.slots.iter().enumerate() {
            if i == skip {
                continue;
            }
            for rec in sl.model.ents.values() {
                for c in 0..g::NC {
                    if let Some((ser, _)) = rec.0[c] {
                        if zoo::HAS_SERIAL[c] && ser != 0 {
                            s.insert(ser);
                        }
                    }
                }
            }
            for r in 0..g::NRES {
                if zoo::RES_HAS_SERIAL[r] {
                    s.insert(sl.model.res[r].0);
                }
            }
        }
        s
    }

    /// Full extraction of a world through the public query API, in iteration order.
    fn extract(&mut self, si: usize, prop: &'static str) -> Result<(BTreeMap<Id, CompRec>, Vec<Id>), Violation> {
        let mut out = Vec::new();
        let w = self.slots[si].world.as_mut().unwrap();
        match sut(|| g::extract(w, &mut out)) {
            Ok(Ok(_)) => {}
            Ok(Err(e)) => return Err(viol("C03", "query-size-hint", format!("full extraction query: {e}"))),
            Err(c) => return Err(unexpected(c, "World::query (full extraction)", prop)),
        }
        let mut map = BTreeMap::new();
        let mut order = Vec::with_capacity(out.len());
        for r in out {
            if let Some(e) = r.err {
                let p = if self.slots[si].tainted { "C17" } else { "C05" };
                return Err(viol(p, "payload-integrity", format!("slot {si}: {e}")));
            }
            let Some(id) = r.id else {
                return Err(viol("C03", "query-no-identifier", "extraction result without identifier".into()));
            };
            let mut rec = CompRec::default();
            for it in r.items.iter().filter(|i| i.kind != K_ID) {
                if it.present {
                    rec.0[it.comp as usize] = Some((it.serial, it.val));
                }
            }
            if map.insert(id, rec).is_some() && !self.slots[si].tainted {
                return Err(viol("C01", "model-extraction", format!("slot {si}: identifier {id:?} yielded twice by a query")));
            }
            order.push(id);
        }
        Ok((map, order))
    }

    fn expected_sig(d: &QDesc, id: Id, rec: &CompRec) -> (Option<Id>, Vec<(u8, u8, bool, u64, u64)>) {
        let mut sig = Vec::new();
        let mut sid = None;
        for (k, c) in d.views {
            if *k == K_ID {
                sid = Some(id);
                continue;
            }
            match rec.0[*c as usize] {
                Some((s, v)) => sig.push((*c, *k, true, s, v)),
                None => sig.push((*c, *k, false, 0, 0)),
            }
        }
        (sid, sig)
    }

    fn observed_sig(r: &Rec) -> (Option<Id>, Vec<(u8, u8, bool, u64, u64)>) {
        (
            r.id,
            r.items.iter().filter(|i| i.kind != K_ID).map(|i| (i.comp, i.kind, i.present, i.serial, i.val)).collect(),
        )
    }

    fn apply_writes(rec: &mut CompRec, d: &QDesc, salt: u64) {
        for (k, c) in d.views {
            if *k == K_MUT || *k == K_OPTMUT {
                if let Some((s, v)) = rec.0[*c as usize] {
                    rec.0[*c as usize] = Some((s, zoo::norm_for(*c, write_val(v, salt, *c))));
                }
            }
        }
    }

    /// `n` items consumed at least, `n + slack` at most, of which `out` were handed out.
    fn check_query_results_partial(&mut self, si: usize, d: &QDesc, out: &[Rec], n: usize, slack: usize, salt: Option<u64>, what: &str) -> Result<(), Violation> {
        if slack == 0 && out.len() == n {
            return self.check_query_results(si, d, out, n, salt, what);
        }
        for r in out {
            if let Some(e) = &r.err {
                return Err(viol("C05", "payload-integrity", format!("{what}: {e}")));
            }
        }
        let m = &self.slots[si].model;
        let mut want: Vec<_> = m.ents.iter().filter(|(_, r)| d.matches(r.mask())).map(|(id, r)| Self::expected_sig(d, *id, r)).collect();
        want.sort();
        let expected = want.len();
        for h in out.iter().map(Self::observed_sig) {
            match want.binary_search(&h) {
                Ok(i) => {
                    want.remove(i);
                }
                Err(_) => {
                    return Err(viol("C03", "query-results", format!("{what} {d:?}: result {h:?} is not among the results the model expects (or was yielded twice)")));
                }
            }
        }
        if expected < n || expected > n.saturating_add(slack) {
            return Err(viol(
                "C03",
                "query-results",
                format!("{what} {d:?}: nth/count/last consumed between {n} and {} results, the model expects {expected}", n.saturating_add(slack)),
            ));
        }
        self.probes.hit("query_consumed_by_nth_count_last");
        Ok(())
    }

    fn check_query_results(&mut self, si: usize, d: &QDesc, out: &[Rec], n: usize, salt: Option<u64>, what: &str) -> Result<(), Violation> {
        for r in out {
            if let Some(e) = &r.err {
                return Err(viol("C05", "payload-integrity", format!("{what}: {e}")));
            }
        }
        if n != out.len() {
            return Err(viol("C03", "harness", "count mismatch".into()));
        }
        let m = &mut self.slots[si].model;
        let mut want: Vec<_> = m.ents.iter().filter(|(_, r)| d.matches(r.mask())).map(|(id, r)| Self::expected_sig(d, *id, r)).collect();
        let mut have: Vec<_> = out.iter().map(Self::observed_sig).collect();
        want.sort();
        have.sort();
        if want != have {
            let missing: Vec<_> = want.iter().filter(|w| !have.contains(w)).take(3).collect();
            let extra: Vec<_> = have.iter().filter(|h| !want.contains(h)).take(3).collect();
            return Err(viol(
                "C03",
                "query-results",
                format!(
                    "{what} {d:?}: {} results, model expects {}; expected-but-missing (first 3) {missing:?}; unexpected (first 3) {extra:?}",
                    have.len(),
                    want.len()
                ),
            ));
        }
        if out.iter().any(|r| r.items.iter().any(|i| !i.present)) {
            self.probes.hit("query_optional_view_absent");
        }
        if want.is_empty() {
            self.probes.hit("query_no_match");
        }
        if let Some(salt) = salt {
            for (_, r) in m.ents.iter_mut() {
                if d.matches(r.mask()) {
                    Self::apply_writes(r, d, salt);
                }
            }
        }
        Ok(())
    }

    fn check_single(&mut self, si: usize, id: Id, d: &QDesc, r: Option<Option<Rec>>, salt: Option<u64>, what: &str) -> Result<(), Violation> {
        let m = &mut self.slots[si].model;
        match (m.ents.get_mut(&id), r) {
            (None, None) => {
                self.probes.hit("single_query_dead_identifier");
                Ok(())
            }
            (None, Some(_)) => Err(viol("C02", "dead-identifier-resolves", format!("{what}: an entry was returned for a dead identifier"))),
            (Some(_), None) => Err(viol("C02", "live-identifier-unresolved", format!("{what}: no entry for a live identifier"))),
            (Some(rec), Some(res)) => {
                let should = d.matches(rec.mask());
                match res {
                    None => {
                        if should {
                            return Err(viol("C03", "single-query-results", format!("{what}: entity with components {:#b} matches but the query returned None", rec.mask())));
                        }
                        self.probes.hit("single_query_no_match");
                        Ok(())
                    }
                    Some(r) => {
                        if let Some(e) = &r.err {
                            return Err(viol("C05", "payload-integrity", format!("{what}: {e}")));
                        }
                        if !should {
                            return Err(viol("C03", "single-query-results", format!("{what}: entity with components {:#b} does not match but the query returned a result", rec.mask())));
                        }
                        let want = Self::expected_sig(d, id, rec);
                        let have = Self::observed_sig(&r);
                        if want != have {
                            return Err(viol("C03", "single-query-results", format!("{what}: got {have:?}, model expects {want:?}")));
                        }
                        if let Some(salt) = salt {
                            Self::apply_writes(rec, d, salt);
                        }
                        if r.items.iter().any(|i| !i.present) {
                            self.probes.hit("single_query_optional_absent");
                        }
                        Ok(())
                    }
                }
            }
        }
    }

    // ---------------------------------------------------------------------------------------
    // Oracles evaluated after every operation.
    // ---------------------------------------------------------------------------------------

    pub fn check_all(&mut self) -> Result<(), Violation> {
        if let Some(e) = arena::error() {
            return Err(viol("C05", "arena-audit", e));
        }
        if let Some(e) = ledger::first_error() {
            let p = if self.balance_off { "C17" } else { "C04" };
            return Err(viol(p, "drop-ledger", e));
        }
        let mut exp_by_type = [0i64; ledger::NTYPES];
        for si in 0..self.nslots() {
            let tainted = self.slots[si].tainted;
            let (got, order) = self.extract(si, if tainted { "C17" } else { "C01" })?;
            for id in &order {
                self.log.u64(id.0 as u64);
                self.log.u64(id.1);
            }
            let dump = self.slots[si].world.as_ref().unwrap().verif_dump();
            crate::audit::arena_crosscheck(&dump, g::NC).map_err(|e| viol(if tainted { "C17" } else { "C05" }, "dump-arena-crosscheck", format!("slot {si}: {e}")))?;
            if tainted {
                continue;
            }
            let Sim { slots, probes, states, .. } = self;
            let Slot { world, model: m, .. } = &mut slots[si];
            let m: &Model = m;
            // C01: same keys, same component sets, same values, same value objects.
            if got != m.ents {
                let mut detail = String::new();
                for (id, want) in m.ents.iter() {
                    match got.get(id) {
                        None => {
                            detail = format!("entity {id:?} is missing from the world");
                            break;
                        }
                        Some(have) if have != want => {
                            detail = format!("entity {id:?}: world has {}, model has {}", fmt_rec(have), fmt_rec(want));
                            break;
                        }
                        _ => {}
                    }
                }
                if detail.is_empty() {
                    for id in got.keys() {
                        if !m.ents.contains_key(id) {
                            detail = format!("world yields entity {id:?} which the model does not hold ({})", fmt_rec(&got[id]));
                            break;
                        }
                    }
                }
                return Err(viol("C01", "model-extraction", format!("slot {si}: {detail} (world {} entities, model {})", got.len(), m.ents.len())));
            }
            let w = world.as_ref().unwrap();
            let (len, empty) = (w.len(), w.is_empty());
            if len != m.ents.len() || empty != m.ents.is_empty() {
                return Err(viol("C01", "len", format!("slot {si}: len() = {len}, is_empty() = {empty}, model holds {} entities", m.ents.len())));
            }
            // C02: every identifier ever issued resolves iff live.
            let mut n_entry = 0;
            let ids: Vec<(Id, bool)> = m.issued.iter().map(|(i, l)| (*i, *l)).collect();
            for (id, live) in ids.iter() {
                let w = world.as_mut().unwrap();
                let c = w.contains(mk_id(*id));
                if c != *live {
                    return Err(viol(
                        "C02",
                        if *live { "live-identifier-unresolved" } else { "dead-identifier-resolves" },
                        format!("slot {si}: contains({id:?}) = {c} but the identifier is {}", if *live { "live" } else { "dead (removed or cleared earlier)" }),
                    ));
                }
                if *live || n_entry < 48 {
                    if !*live {
                        n_entry += 1;
                    }
                    let e = w.entry(mk_id(*id)).is_some();
                    if e != *live {
                        return Err(viol(
                            "C02",
                            if *live { "live-identifier-unresolved" } else { "dead-identifier-resolves" },
                            format!("slot {si}: entry({id:?}).is_some() = {e} but the identifier is {}", if *live { "live" } else { "dead" }),
                        ));
                    }
                }
            }
            if m.issued.len() != m.ents.len() {
                probes.hit("dead_identifiers_probed");
            }
            // C13: structural audit.
            crate::audit::audit(&dump, g::NC, m.ents.len()).map_err(|(o, e)| viol("C13", o, format!("slot {si}: {e}")))?;
            let distinct_indices: BTreeSet<usize> = m.issued.keys().map(|i| i.0).collect();
            if distinct_indices.len() != m.peak_live {
                return Err(viol(
                    "C13",
                    "audit-index-echo",
                    format!(
                        "slot {si}: {} distinct identifier indices were issued but at most {} entities were ever live at once: a released identifier was not reused",
                        distinct_indices.len(),
                        m.peak_live
                    ),
                ));
            }
            // C15: resources.
            let w = world.as_ref().unwrap();
            match sut(|| g::read_resources(w)) {
                Ok(Ok(r)) => {
                    if r != m.res {
                        return Err(viol("C15", "resource-changed", format!("slot {si}: resources are {r:?}, model has {:?}", m.res)));
                    }
                }
                Ok(Err(e)) => return Err(viol("C15", "resource-integrity", e)),
                Err(c) => return Err(unexpected(c, "World::get", "C15")),
            }
            // Ledger expectation.
            for rec in m.ents.values() {
                for c in 0..g::NC {
                    if rec.0[c].is_some() {
                        exp_by_type[c] += 1;
                    }
                }
            }
            for r in 0..g::NRES {
                exp_by_type[zoo::RES_IX_BASE as usize + r] += 1;
            }
            // Abstract state for coverage accounting.
            let mut h = Fnv::default();
            let mut shapes: BTreeMap<u16, u32> = BTreeMap::new();
            for rec in m.ents.values() {
                *shapes.entry(rec.mask()).or_insert(0) += 1;
            }
            for (k, v) in shapes {
                h.u64(k as u64);
                h.u64(v.min(3) as u64);
            }
            h.u64(dump.free.len().min(4) as u64);
            h.u64(dump.archetypes.len() as u64);
            if states.len() < 4096 {
                states.insert(h.0);
            }
            if dump.archetypes.iter().any(|a| a.length == 0) {
                probes.hit("world_has_empty_archetype");
            }
            if dump.archetypes.len() > 64 {
                probes.hit("world_has_more_than_64_archetypes");
            }
            if dump.archetypes.len() > 128 {
                probes.hit("world_has_more_than_128_archetypes");
            }
            if dump.slots.len() > 131072 {
                probes.hit("world_has_more_than_131072_slots");
            }
            if dump.slots.len() > 65536 {
                probes.hit("world_has_more_than_65536_slots");
            }
        }
        // C04: exactly-once drops — what is live is exactly what the models hold.
        if !self.balance_off {
            for t in 0..ledger::NTYPES {
                let is_comp = t < g::NC;
                let is_res = t >= zoo::RES_IX_BASE as usize && t < zoo::RES_IX_BASE as usize + 4;
                if !is_comp && !is_res {
                    continue;
                }
                if is_comp && !zoo::TRACKS_DROPS[t] {
                    continue;
                }
                let has_serial = if is_comp { zoo::HAS_SERIAL[t] } else { zoo::RES_HAS_SERIAL[t - zoo::RES_IX_BASE as usize] };
                let live = if has_serial { ledger::live_by_type(t as u8) } else { ledger::anon_live(t as u8) };
                if live != exp_by_type[t] {
                    let name = if is_comp { zoo::COMPONENT_NAMES[t] } else { zoo::RESOURCE_NAMES[t - zoo::RES_IX_BASE as usize] };
                    let mut extra = String::new();
                    if has_serial && live > exp_by_type[t] {
                        let held = self.all_serials_except(usize::MAX);
                        let leaked: Vec<String> = ledger::live_serials()
                            .into_iter()
                            .filter(|(s, ty)| *ty as usize == t && !held.contains(s))
                            .take(3)
                            .map(|(s, _)| ledger::describe(s))
                            .collect();
                        extra = format!("; not owned by any world: {leaked:?}");
                    }
                    return Err(viol(
                        "C04",
                        if live > exp_by_type[t] { "ledger-leak" } else { "ledger-early-drop" },
                        format!("{live} values of type {name} are alive, the worlds hold {}{extra}", exp_by_type[t]),
                    ));
                }
            }
        }
        Ok(())
    }

    /// Drop every world; afterwards nothing may be alive.
    pub fn finish(&mut self) -> Result<(), Violation> {
        self.opix += 1;
        ledger::set_op(self.opix);
        fault::begin_op();
        for si in 0..self.nslots() {
            let w = self.slots[si].world.take();
            self.slots[si].snapshot = None;
            if let Err(c) = sut(move || drop(w)) {
                let mut v = unexpected(c, "drop(World)", if self.balance_off { "C17" } else { "C04" });
                v.op = self.opix;
                return Err(v);
            }
        }
        let mut r = Ok(());
        if let Some(e) = ledger::first_error() {
            r = Err(viol(if self.balance_off { "C17" } else { "C04" }, "drop-ledger", e));
        } else if let Some(e) = {
            arena::sweep_quarantine();
            arena::error()
        } {
            r = Err(viol("C05", "arena-audit", e));
        } else if !self.balance_off {
            if ledger::live_count() != 0 {
                let l: Vec<String> = ledger::live_serials().into_iter().take(3).map(|(s, _)| ledger::describe(s)).collect();
                r = Err(viol("C04", "ledger-leak", format!("{} values still alive after every world was dropped: {l:?}", ledger::live_count())));
            } else {
                for t in [1u8, 4, 9, 18] {
                    if ledger::anon_live(t) != 0 {
                        r = Err(viol("C04", "ledger-leak", format!("{} anonymous values of type index {t} still alive after every world was dropped", ledger::anon_live(t))));
                    }
                }
            }
        }
        r.map_err(|mut v: Violation| {
            v.op = self.opix;
            v
        })
    }

    // ---------------------------------------------------------------------------------------
    // Faulted operations.
    // ---------------------------------------------------------------------------------------

    fn corrupt(&mut self, a: usize, b: usize, enc: u8, faults: &[StreamFault], in_place: bool) -> Result<(), Violation> {
        if self.slots[a].tainted {
            return Ok(());
        }
        let w = self.slots[a].world.as_ref().unwrap();
        let mut stream = match sut(|| medium::serialize(w, enc)) {
            Ok(Ok(s)) => s,
            Ok(Err(e)) => return Err(viol("C06", "serialize-failed", e)),
            Err(c) => return Err(unexpected(c, "World::serialize", "C06")),
        };
        let mut applied = 0;
        for f in faults {
            if medium::apply_fault(&mut stream, f) {
                applied += 1;
                *self.faults_fired.entry(format!("stream-{}", f.kind)).or_insert(0) += 1;
            }
        }
        if applied == 0 {
            self.probes.hit("corrupt_no_fault_applicable");
        }
        if self.verbose {
            let _t = arena::tag_scope(arena::TAG_HARNESS);
            eprintln!("corrupted stream ({applied} faults applied): {}", medium::render(&stream));
        }
        let (created0, _) = ledger::totals();
        let live0 = ledger::live_count();
        let sut_blocks0 = arena::stats().live_sut;
        let anon0: Vec<i64> = (0..ledger::NTYPES as u8).map(ledger::anon_live).collect();
        // In place: over the world that is in the destination slot. Whatever the outcome, that world
        // has to stay usable; after an error its content is unspecified.
        let in_place = in_place && a != b && !self.slots[b].tainted;
        let r = if in_place {
            let mut place = self.slots[b].world.take().unwrap();
            let r = sut(|| medium::deserialize_in_place(&stream, &mut place));
            match r {
                Ok(Ok(())) => Ok(Ok(place)),
                other => {
                    self.slots[b].world = Some(place);
                    self.slots[b].tainted = true;
                    self.balance_off = true;
                    self.lockstep = None;
                    self.probes.hit("deserialize_in_place_rejected");
                    match other {
                        Ok(Err(e)) => Ok(Err(e)),
                        Err(c) => Err(c),
                        Ok(Ok(())) => unreachable!(),
                    }
                }
            }
        } else {
            sut(|| medium::deserialize(&stream))
        };
        match r {
            Err(Caught::Other(msg)) if medium::is_medium_panic(&msg) => {
                // The token medium itself rejected the stream by panicking: not the library's doing.
                self.probes.hit("corrupt_medium_panic");
                self.balance_off = true;
                Ok(())
            }
            Err(c) => Err(unexpected(c, "World::deserialize of a corrupted stream", "C11")),
            Ok(Err(_e)) => {
                if self.verbose {
                    eprintln!("rejected: {_e}");
                }
                drop(_e);
                self.probes.hit("corrupt_rejected");
                let (created1, _) = ledger::totals();
                if created1 > created0 {
                    self.probes.hit("corrupt_rejected_after_constructing_values");
                }
                if let Some(e) = ledger::first_error() {
                    return Err(viol("C11", "corrupt-drop-ledger", format!("while rejecting a corrupted stream: {e}")));
                }
                if let Some(e) = arena::error() {
                    return Err(viol("C11", "corrupt-arena-audit", format!("while rejecting a corrupted stream: {e}")));
                }
                if in_place {
                    // What the place holds now is unspecified; only exactly-once and memory safety apply.
                    return Ok(());
                }
                if ledger::live_count() != live0 {
                    let held = self.all_serials_except(usize::MAX);
                    let leaked: Vec<String> =
                        ledger::live_serials().into_iter().filter(|(s, _)| !held.contains(s)).take(3).map(|(s, _)| ledger::describe(s)).collect();
                    return Err(viol(
                        "C04",
                        "failed-deserialize-leak",
                        format!(
                            "a deserialization that returned Err left {} values alive that it had constructed: {leaked:?}",
                            ledger::live_count() as i64 - live0 as i64
                        ),
                    ));
                }
                let sut_blocks1 = arena::stats().live_sut;
                if sut_blocks1 > sut_blocks0 {
                    // Plain memory (no values) that a failed attempt did not give back. No given
                    // property forbids it (C05 speaks of memory obtained for a world that is then
                    // dropped), so it is recorded, not reported, and the end-of-run balance is off.
                    self.probes.add("failed_deserialize_leaked_blocks", sut_blocks1 - sut_blocks0);
                    self.tolerated_leak = true;
                }
                for t in 0..ledger::NTYPES as u8 {
                    if ledger::anon_live(t) != anon0[t as usize] {
                        return Err(viol(
                            "C04",
                            "failed-deserialize-leak",
                            format!("a deserialization that returned Err changed the live count of anonymous type index {t} by {}", ledger::anon_live(t) - anon0[t as usize]),
                        ));
                    }
                }
                Ok(())
            }
            Ok(Ok(new)) => {
                self.probes.hit("corrupt_accepted");
                if in_place {
                    self.probes.hit("deserialize_in_place");
                }
                // The accepted world must be fully valid: audit, then adopt it with a model built
                // from its own extraction and continue the history on it.
                self.replace_world(b, new)?;
                let dump = self.slots[b].world.as_ref().unwrap().verif_dump();
                let rows: usize = dump.archetypes.iter().map(|a| a.length).sum();
                crate::audit::audit(&dump, g::NC, rows).map_err(|(o, e)| viol("C11", &format!("corrupt-accepted-{o}"), format!("a corrupted stream was accepted and yields an invalid world: {e}")))?;
                let (got, _) = self.extract(b, "C11").map_err(|mut v| {
                    v.prop = "C11";
                    v
                })?;
                let w = self.slots[b].world.as_ref().unwrap();
                if w.len() != got.len() {
                    return Err(viol("C11", "corrupt-accepted-len", format!("accepted world: len() = {} but {} entities are stored", w.len(), got.len())));
                }
                let res = match sut(|| g::read_resources(w)) {
                    Ok(Ok(r)) => r,
                    Ok(Err(e)) => return Err(viol("C11", "corrupt-accepted-resource", e)),
                    Err(c) => return Err(unexpected(c, "World::get", "C11")),
                };
                let mut model = Model::default();
                model.res = res;
                for (id, rec) in got {
                    model.issued.insert(id, true);
                    model.ents.insert(id, rec);
                }
                // Slot indices below the highest may be free without ever having been observed as
                // issued; the echo oracle needs the true slot count.
                model.peak_live = model.ents.len();
                for i in 0..dump.slots.len() {
                    if !model.issued.keys().any(|k| k.0 == i) {
                        // Unknown earlier identifier of this slot: register a placeholder that is dead.
                        model.issued.insert((i, u64::MAX), false);
                    }
                }
                model.peak_live = model.peak_live.max(dump.slots.len());
                self.slots[b].model = model;
                Ok(())
            }
        }
    }

    fn fault_at(&mut self, kind: &str, k: u32, as_error: bool, inner: &Op) -> Result<(), Violation> {
        let Some(kind) = Kind::from_name(kind) else {
            return Err(viol("C17", "harness", format!("unknown fault kind {kind}")));
        };
        if matches!(inner, Op::FaultAt { .. } | Op::Lockstep { .. }) {
            return Ok(());
        }
        self.lockstep = None;
        let err_mode = as_error && (kind == Kind::Ser || kind == Kind::De);
        fault::begin_op();
        fault::arm(kind, k as u64, err_mode);
        let r = self.apply_faulted(inner, err_mode);
        fault::disarm();
        if fault::fired() {
            *self.faults_fired.entry(format!("{}-{}", if err_mode { "error" } else { "panic" }, kind.name())).or_insert(0) += 1;
            self.probes.hit("fault_fired");
        } else {
            self.fault_armed_unfired += 1;
        }
        r
    }

    /// Run an operation while a fault is armed. If the fault fires as a panic inside a `&mut`
    /// operation the slot becomes tainted.
    fn apply_faulted(&mut self, inner: &Op, err_mode: bool) -> Result<(), Violation> {
        let r = self.apply(inner);
        if !fault::fired() {
            return r;
        }
        if err_mode {
            // An injected Err must surface as an Err of the whole call, which the operation
            // reports as serialize-failed / deserialize-failed: that is the expected outcome.
            return match r {
                Err(v) if v.oracle == "serialize-failed" || v.oracle == "roundtrip-deserialize-failed" || v.oracle == "restore-failed" => Ok(()),
                Err(v) => Err(v),
                Ok(()) => Err(viol("C06", "injected-error-swallowed", format!("an injected serialize/deserialize error inside {} did not reach the caller", inner.name()))),
            };
        }
        // Panic mode: the panic must have reached the caller.
        match r {
            Err(v) if v.oracle == "unexpected-injected-panic" => {
                self.balance_off = true;
                // Every world the operation writes to (including a destination whose replacement
                // was interrupted) has unknown content from now on.
                for s in inner.touched_slots().into_iter().chain(inner.mirror_slot()) {
                    let si = self.s(s);
                    self.slots[si].tainted = true;
                }
                self.probes.hit("panic_reached_caller");
                Ok(())
            }
            Err(v) => Err(v),
            Ok(()) => Err(viol("C17", "panic-swallowed", format!("an injected panic inside {} did not reach the caller", inner.name()))),
        }
    }
}

fn fmt_rec(r: &CompRec) -> String {
    let mut s = String::from("{");
    for c in 0..MAXC {
        if let Some((ser, v)) = r.0[c] {
            s.push_str(&format!("{}:#{ser}={v:#x} ", zoo::COMPONENT_NAMES[c]));
        }
    }
    s.push('}');
    s
}

pub fn bytes_to_mask(b: &[u8]) -> u16 {
    let mut m = 0u16;
    for (i, byte) in b.iter().enumerate().take(2) {
        m |= (*byte as u16) << (8 * i);
    }
    m
}

/// Same live identifiers, component sets, values and resource values (serials may differ).
pub fn same_content(a: &Model, b: &Model) -> Result<(), String> {
    if a.ents.len() != b.ents.len() {
        return Err(format!("{} vs {} entities", a.ents.len(), b.ents.len()));
    }
    for (id, ra) in a.ents.iter() {
        let Some(rb) = b.ents.get(id) else { return Err(format!("entity {id:?} only on one side")) };
        for c in 0..MAXC {
            if ra.0[c].map(|x| x.1) != rb.0[c].map(|x| x.1) {
                return Err(format!("entity {id:?} component {}: {:?} vs {:?}", zoo::COMPONENT_NAMES[c], ra.0[c].map(|x| x.1), rb.0[c].map(|x| x.1)));
            }
        }
    }
    for r in 0..g::NRES {
        if a.res[r].1 != b.res[r].1 {
            return Err(format!("resource {}: {:#x} vs {:#x}", zoo::RESOURCE_NAMES[r], a.res[r].1, b.res[r].1));
        }
    }
    Ok(())
}

fn two_mut<T>(v: &mut [T], a: usize, b: usize) -> (&mut T, &mut T) {
    assert!(a != b);
    if a < b {
        let (x, y) = v.split_at_mut(b);
        (&mut x[a], &mut y[0])
    } else {
        let (x, y) = v.split_at_mut(a);
        (&mut y[0], &mut x[b])
    }
}
