//! The persistence medium ("simdisk"): a token vector in human-readable or compact mode, and
//! serde_json text; plus the stream faults that corrupt it.

use crate::g;
use crate::ops::StreamFault;
use serde::{Deserialize, Serialize};
use serde_assert::{Deserializer, Serializer, Token, Tokens};

#[derive(Clone, Debug)]
pub enum Stream {
    Tokens { readable: bool, tokens: Vec<Token> },
    Json(Vec<u8>),
}

impl Stream {
    pub fn len(&self) -> usize {
        match self {
            Stream::Tokens { tokens, .. } => tokens.len(),
            Stream::Json(s) => s.len(),
        }
    }
}

/// Number of encodings.
pub const NENC: u8 = 5;

pub fn serialize(w: &g::Wd, enc: u8) -> Result<Stream, String> {
    match enc {
        0 | 1 | 3 => {
            // 3: compact, with structs written as plain sequences, the way formats that are not
            // self-describing (bincode and the like) do; this is what reaches the `visit_seq` side of
            // the library's struct visitors.
            let mut b = Serializer::builder();
            b.is_human_readable(enc == 0);
            if enc == 3 {
                b.serialize_struct_as(serde_assert::ser::SerializeStructAs::Seq);
            }
            let ser = b.build();
            match w.serialize(&ser) {
                Ok(t) => {
                    // A format that is not self-describing prefixes every sequence with its length
                    // and cannot write one whose length the `Serialize` impl did not state.
                    if enc == 3 && t.0.iter().any(|t| matches!(t, Token::Seq { len: None } | Token::Map { len: None })) {
                        return Err("sequence or map of unknown length: a length-prefixed format cannot write it".to_string());
                    }
                    Ok(Stream::Tokens { readable: enc == 0, tokens: t.0 })
                }
                Err(e) => Err(format!("{e}")),
            }
        }
        4 => {
            // Through `serde_json::Value`: a self-describing format whose maps do not keep the
            // order of the keys (they come back sorted by name), so every struct of the stream
            // reaches the library with its fields in another order than it wrote them.
            let v = serde_json::to_value(w).map_err(|e| format!("{e}"))?;
            serde_json::to_vec(&v).map(Stream::Json).map_err(|e| format!("{e}"))
        }
        _ => serde_json::to_vec(w).map(Stream::Json).map_err(|e| format!("{e}")),
    }
}

pub fn deserialize(s: &Stream) -> Result<g::Wd, String> {
    match s {
        Stream::Tokens { readable, tokens } => {
            let mut de = Deserializer::builder().tokens(Tokens(tokens.clone())).is_human_readable(*readable).build();
            let w = g::Wd::deserialize(&mut de).map_err(|e| format!("{e}"))?;
            Ok(w)
        }
        Stream::Json(bytes) => serde_json::from_slice::<g::Wd>(bytes).map_err(|e| format!("{e}")),
    }
}

/// The same through `Deserialize::deserialize_in_place`, over an existing world.
pub fn deserialize_in_place(s: &Stream, place: &mut g::Wd) -> Result<(), String> {
    match s {
        Stream::Tokens { readable, tokens } => {
            let mut de = Deserializer::builder().tokens(Tokens(tokens.clone())).is_human_readable(*readable).build();
            <g::Wd as Deserialize>::deserialize_in_place(&mut de, place).map_err(|e| format!("{e}"))
        }
        Stream::Json(bytes) => {
            let mut de = serde_json::Deserializer::from_slice(bytes);
            <g::Wd as Deserialize>::deserialize_in_place(&mut de, place).map_err(|e| format!("{e}"))?;
            de.end().map_err(|e| format!("{e}"))
        }
    }
}

/// A panic raised inside the token medium itself (serde_assert is a test helper and asserts on
/// some malformed streams) is not the library's doing.
pub fn is_medium_panic(msg: &str) -> bool {
    msg.contains("serde_assert")
}

const FIELD_NAMES: [&str; 6] = ["length", "free", "identifier", "entity_identifiers", "components", "bogus"];

fn alter_len(len: usize, arg: i64, bound: usize) -> usize {
    match arg.rem_euclid(5) {
        0 => len + 1,
        1 => len.saturating_sub(1),
        2 => 0,
        3 => bound,
        _ => len + 2,
    }
}

/// Alterations of a number. Lengths (and numbers whose role is unknown) only move by small
/// amounts or to the size of the input, as the property bounds declared lengths by the input size;
/// entity indices and generations may also take extreme values.
fn alter_u64(v: u64, arg: i64, bound: usize, extreme_ok: bool) -> u64 {
    match arg.rem_euclid(8) {
        0 => v.wrapping_add(1),
        1 => v.saturating_sub(1),
        2 => 0,
        3 => v ^ 1,
        4 => v.wrapping_add(2),
        5 => bound as u64,
        6 => {
            if extreme_ok {
                u64::MAX
            } else {
                v.wrapping_add(3)
            }
        }
        _ => {
            if extreme_ok {
                v ^ (1 << 40)
            } else {
                v ^ 2
            }
        }
    }
}

/// What class a token belongs to, for reporting which fault classes were exercised.
pub fn token_class(t: &Token) -> &'static str {
    match t {
        Token::Seq { .. } | Token::Tuple { .. } | Token::Struct { .. } | Token::Map { .. } | Token::TupleStruct { .. } => "declared-length",
        Token::U8(_) | Token::U16(_) | Token::U32(_) | Token::U64(_) | Token::I64(_) => "number",
        Token::Bytes(_) => "bytes",
        Token::Str(_) | Token::Field(_) => "name",
        Token::UnitStruct { .. } | Token::Unit => "unit",
        Token::SeqEnd | Token::TupleEnd | Token::StructEnd | Token::MapEnd | Token::TupleStructEnd => "end-marker",
        _ => "other",
    }
}

fn alter_token(t: &Token, arg: i64, bound: usize, extreme_ok: bool) -> Token {
    match t {
        Token::Seq { len: Some(n) } => {
            if arg.rem_euclid(6) == 5 {
                Token::Seq { len: None }
            } else {
                Token::Seq { len: Some(alter_len(*n, arg, bound)) }
            }
        }
        Token::Seq { len: None } => Token::Seq { len: Some(arg.rem_euclid(4) as usize) },
        Token::Tuple { len } => Token::Tuple { len: alter_len(*len, arg, bound) },
        Token::Struct { name, len } => Token::Struct { name, len: alter_len(*len, arg, bound) },
        Token::TupleStruct { name, len } => Token::TupleStruct { name, len: alter_len(*len, arg, bound) },
        Token::Map { len: Some(n) } => Token::Map { len: Some(alter_len(*n, arg, bound)) },
        Token::U8(v) => Token::U8(alter_u64(*v as u64, arg, bound, true) as u8),
        Token::U16(v) => Token::U16(alter_u64(*v as u64, arg, bound, true) as u16),
        Token::U32(v) => Token::U32(alter_u64(*v as u64, arg, bound, extreme_ok) as u32),
        Token::U64(v) => {
            if arg.rem_euclid(9) == 8 {
                Token::U8(*v as u8)
            } else {
                Token::U64(alter_u64(*v, arg, bound, extreme_ok))
            }
        }
        Token::Bytes(b) => {
            let mut b = b.clone();
            match arg.rem_euclid(5) {
                0 => {
                    if let Some(x) = b.last_mut() {
                        *x ^= 0x80
                    }
                }
                1 => {
                    if let Some(x) = b.first_mut() {
                        *x ^= 0x01
                    }
                }
                2 => b.push(0),
                3 => {
                    b.pop();
                }
                _ => {
                    for x in b.iter_mut() {
                        *x = 0xFF
                    }
                }
            }
            Token::Bytes(b)
        }
        Token::Str(s) => {
            let alt = FIELD_NAMES[arg.rem_euclid(FIELD_NAMES.len() as i64) as usize];
            if alt == s {
                Token::Str("bogus".to_string())
            } else {
                Token::Str(alt.to_string())
            }
        }
        Token::Field(s) => {
            let alt = FIELD_NAMES[arg.rem_euclid(FIELD_NAMES.len() as i64) as usize];
            if alt == *s {
                Token::Field("bogus")
            } else {
                Token::Field(alt)
            }
        }
        Token::UnitStruct { .. } | Token::Unit => Token::U64(arg as u64),
        Token::SeqEnd => Token::TupleEnd,
        Token::TupleEnd => Token::SeqEnd,
        Token::StructEnd => Token::SeqEnd,
        other => other.clone(),
    }
}

/// Extent (in tokens) of the value that starts at `pos`: a scalar is one token, a compound value
/// runs to its matching end marker, a newtype wrapper includes the value it wraps. Returns 0 for
/// tokens that do not start a value (end markers, field names).
pub fn group_extent(tokens: &[Token], pos: usize) -> usize {
    fn closer(t: &Token) -> Option<u8> {
        Some(match t {
            Token::Seq { .. } => 0,
            Token::Tuple { .. } => 1,
            Token::TupleStruct { .. } => 2,
            Token::Map { .. } => 3,
            Token::Struct { .. } => 4,
            Token::TupleVariant { .. } => 5,
            Token::StructVariant { .. } => 6,
            _ => return None,
        })
    }
    fn is_end(t: &Token) -> bool {
        matches!(t, Token::SeqEnd | Token::TupleEnd | Token::TupleStructEnd | Token::MapEnd | Token::StructEnd | Token::TupleVariantEnd | Token::StructVariantEnd)
    }
    let Some(t) = tokens.get(pos) else { return 0 };
    if is_end(t) || matches!(t, Token::Field(_) | Token::SkippedField(_)) {
        return 0;
    }
    if matches!(t, Token::NewtypeStruct { .. } | Token::NewtypeVariant { .. } | Token::Some) {
        let inner = group_extent(tokens, pos + 1);
        return if inner == 0 { 0 } else { 1 + inner };
    }
    if closer(t).is_none() {
        return 1;
    }
    let mut depth = 0usize;
    for (i, t) in tokens.iter().enumerate().skip(pos) {
        if closer(t).is_some() {
            depth += 1;
        } else if is_end(t) {
            depth -= 1;
            if depth == 0 {
                return i - pos + 1;
            }
        }
    }
    0
}

/// Number of serialized entity identifiers in a token stream (for the `alias` fault).
pub fn identifier_count(s: &Stream) -> usize {
    match s {
        Stream::Tokens { tokens, .. } => tokens.iter().filter(|t| matches!(t, Token::Struct { name: "Identifier", .. })).count(),
        Stream::Json(_) => 0,
    }
}

/// Number of distinct alterations defined for the token at `pos`.
/// Does a compound value (more than one token) start at `pos`?
pub fn is_group_start(s: &Stream, pos: usize) -> bool {
    match s {
        Stream::Tokens { tokens, .. } => group_extent(tokens, pos) > 1,
        Stream::Json(_) => false,
    }
}

pub fn alt_variants(s: &Stream, pos: usize) -> usize {
    match s {
        Stream::Tokens { tokens, .. } => match tokens.get(pos) {
            Some(Token::Seq { .. }) => 6,
            Some(Token::Tuple { .. } | Token::Struct { .. } | Token::TupleStruct { .. } | Token::Map { .. }) => 5,
            Some(Token::U64(_)) => 9,
            Some(Token::U8(_) | Token::U16(_) | Token::U32(_)) => 8,
            Some(Token::Bytes(_)) => 5,
            Some(Token::Str(_) | Token::Field(_)) => FIELD_NAMES.len(),
            Some(Token::UnitStruct { .. } | Token::Unit) => 1,
            Some(Token::SeqEnd | Token::TupleEnd | Token::StructEnd) => 1,
            _ => 0,
        },
        Stream::Json(_) => 4,
    }
}

/// Apply one fault; returns whether the stream changed.
pub fn apply_fault(s: &mut Stream, f: &StreamFault) -> bool {
    match s {
        Stream::Tokens { tokens, .. } => {
            let n = tokens.len();
            if n == 0 {
                return false;
            }
            let pos = f.pos % n;
            match f.kind.as_str() {
                "del" => {
                    tokens.remove(pos);
                    true
                }
                "dup" => {
                    let t = tokens[pos].clone();
                    tokens.insert(pos, t);
                    true
                }
                "swap" => {
                    if pos + 1 < n {
                        tokens.swap(pos, pos + 1);
                        true
                    } else {
                        false
                    }
                }
                "cut" => {
                    tokens.truncate(pos);
                    true
                }
                "move" => {
                    let t = tokens.remove(pos);
                    let to = (f.arg.rem_euclid(n as i64)) as usize % tokens.len().max(1);
                    tokens.insert(to.min(tokens.len()), t);
                    true
                }
                "delgroup" | "dupgroup" | "swapgroup" => {
                    // Whole values (an element of a sequence, a row, a column, an identifier, a
                    // section) deleted, duplicated or exchanged with the following sibling;
                    // declared lengths are left as they were.
                    let ext = group_extent(tokens, pos);
                    if ext == 0 || ext == n {
                        return false;
                    }
                    match f.kind.as_str() {
                        "delgroup" => {
                            tokens.drain(pos..pos + ext);
                            true
                        }
                        "dupgroup" => {
                            let copy: Vec<Token> = tokens[pos..pos + ext].to_vec();
                            for (i, t) in copy.into_iter().enumerate() {
                                tokens.insert(pos + ext + i, t);
                            }
                            true
                        }
                        _ => {
                            let next = pos + ext;
                            let ext2 = group_extent(tokens, next);
                            if ext2 == 0 {
                                return false;
                            }
                            let a: Vec<Token> = tokens[pos..next].to_vec();
                            let b: Vec<Token> = tokens[next..next + ext2].to_vec();
                            if a == b {
                                return false;
                            }
                            let mut merged = b;
                            merged.extend(a);
                            for (i, t) in merged.into_iter().enumerate() {
                                tokens[pos + i] = t;
                            }
                            true
                        }
                    }
                }
                "alias" => {
                    // Make the index of the `pos`-th serialized entity identifier equal to that of
                    // the `|arg|`-th one (stored rows and free-list entries alike): an input that is
                    // inconsistent across sections. With a negative `arg` the allocator's declared
                    // length is lowered by one as well, so that every index below it can still be
                    // accounted for when the victim held the highest index.
                    let ids: Vec<usize> = (0..n).filter(|i| matches!(&tokens[*i], Token::Struct { name: "Identifier", .. })).collect();
                    if ids.len() < 2 {
                        return false;
                    }
                    let a = ids[f.pos % ids.len()];
                    let b = ids[(f.arg.unsigned_abs() as usize) % ids.len()];
                    if a == b || a + 2 >= n || b + 2 >= n {
                        return false;
                    }
                    let new = tokens[b + 2].clone();
                    let changed = tokens[a + 2] != new;
                    tokens[a + 2] = new;
                    if f.arg < 0 {
                        for i in 0..n.saturating_sub(1) {
                            if matches!(&tokens[i], Token::Field("length")) {
                                if let Token::U64(v) = tokens[i + 1] {
                                    tokens[i + 1] = Token::U64(v.saturating_sub(1));
                                }
                            }
                        }
                    }
                    changed
                }
                "alt" => {
                    let extreme_ok = pos > 0 && matches!(&tokens[pos - 1], Token::Field("index") | Token::Field("generation"));
                    let new = alter_token(&tokens[pos], f.arg, n, extreme_ok);
                    let changed = new != tokens[pos];
                    tokens[pos] = new;
                    changed
                }
                _ => false,
            }
        }
        Stream::Json(bytes) => {
            let n = bytes.len();
            if n == 0 {
                return false;
            }
            let pos = f.pos % n;
            match f.kind.as_str() {
                "del" => {
                    bytes.remove(pos);
                    true
                }
                "dup" => {
                    let b = bytes[pos];
                    bytes.insert(pos, b);
                    true
                }
                "swap" => {
                    if pos + 1 < n && bytes[pos] != bytes[pos + 1] {
                        bytes.swap(pos, pos + 1);
                        true
                    } else {
                        false
                    }
                }
                "cut" => {
                    bytes.truncate(pos);
                    true
                }
                "alt" | "byte" => {
                    let old = bytes[pos];
                    let new = match f.arg.rem_euclid(4) {
                        0 => {
                            if old.is_ascii_digit() {
                                b'0' + (old - b'0' + 1) % 10
                            } else {
                                old ^ 0x01
                            }
                        }
                        1 => b'0',
                        2 => b']',
                        _ => b',',
                    };
                    bytes[pos] = new;
                    new != old
                }
                _ => false,
            }
        }
    }
}

pub fn render(s: &Stream) -> String {
    match s {
        Stream::Tokens { readable, tokens } => {
            let mut out = format!("tokens(readable={readable}) ");
            for (i, t) in tokens.iter().enumerate() {
                out.push_str(&format!("[{i}]{t:?} "));
            }
            out
        }
        Stream::Json(b) => format!("json {}", String::from_utf8_lossy(b)),
    }
}
