//! Descriptors emitted next to every generated call site, and their evaluation on the model.

use crate::obs::*;
use simcore::zoo::Tracked;

pub const MAXC: usize = 10;

/// Per-component `(serial, val)` of one entity.
#[derive(Clone, Copy, Debug, PartialEq, Eq, Default)]
pub struct CompRec(pub [Option<(u64, u64)>; MAXC]);

impl CompRec {
    pub fn set<T: Tracked>(&mut self, t: &T) {
        self.0[T::IX as usize] = Some((t.serial(), t.val()));
    }
    pub fn mask(&self) -> u16 {
        let mut m = 0;
        for (i, c) in self.0.iter().enumerate() {
            if c.is_some() {
                m |= 1 << i;
            }
        }
        m
    }
}

#[derive(Debug)]
pub enum F {
    None,
    Has(u8),
    Not(&'static F),
    And(&'static F, &'static F),
    Or(&'static F, &'static F),
    View(u8, u8),
    Views(&'static [(u8, u8)]),
}

impl F {
    pub fn eval(&self, mask: u16) -> bool {
        match self {
            F::None => true,
            F::Has(c) => mask >> c & 1 == 1,
            F::Not(f) => !f.eval(mask),
            F::And(a, b) => a.eval(mask) && b.eval(mask),
            F::Or(a, b) => a.eval(mask) || b.eval(mask),
            F::View(k, c) => view_filter(*k, *c, mask),
            F::Views(vs) => vs.iter().all(|(k, c)| view_filter(*k, *c, mask)),
        }
    }
}

fn view_filter(kind: u8, comp: u8, mask: u16) -> bool {
    match kind {
        K_REF | K_MUT => mask >> comp & 1 == 1,
        _ => true,
    }
}

#[derive(Debug)]
pub struct QDesc {
    pub views: &'static [(u8, u8)],
    pub filter: F,
}

impl QDesc {
    /// Does an entity with component set `mask` appear in the results?
    pub fn matches(&self, mask: u16) -> bool {
        self.filter.eval(mask) && self.views.iter().all(|(k, c)| view_filter(*k, *c, mask))
    }
    pub fn writes(&self) -> bool {
        self.views.iter().any(|(k, _)| *k == K_MUT || *k == K_OPTMUT)
    }
}

#[derive(Debug)]
pub struct EDesc {
    pub iter: QDesc,
    pub entry_views: &'static [(u8, u8)],
    pub sub: QDesc,
}
