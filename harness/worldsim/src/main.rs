//! worldsim: the E1 world simulator binary.
//!
//!   worldsim run    --profile C01 --seed S --from I --count N [--thorough] [--budget-ms T]
//!   worldsim replay FILE [--verbose]
//!   worldsim emit   --profile C01 --seed S --index I [--thorough]
//!
//! `run` prints `START <index> <run seed>` before and `RUN <json>` after every run; a worker that
//! dies therefore identifies the run that killed it.

mod audit;
mod desc;
mod gen;
#[cfg(not(any(feature = "r10", feature = "r8", feature = "r9", feature = "r0")))]
mod gen_r7;
#[cfg(not(any(feature = "r10", feature = "r8", feature = "r9", feature = "r0")))]
pub(crate) use gen_r7 as g;
#[cfg(feature = "r0")]
mod gen_r0;
#[cfg(feature = "r0")]
pub(crate) use gen_r0 as g;
#[cfg(feature = "r9")]
mod gen_r9;
#[cfg(feature = "r9")]
pub(crate) use gen_r9 as g;
#[cfg(feature = "r8")]
mod gen_r8;
#[cfg(feature = "r8")]
pub(crate) use gen_r8 as g;
#[cfg(feature = "r10")]
mod gen_r10;
#[cfg(feature = "r10")]
pub(crate) use gen_r10 as g;

pub const ENGINE: &str = if cfg!(feature = "r10") {
    "worldsim10"
} else if cfg!(feature = "r9") {
    "worldsim9"
} else if cfg!(feature = "r8") {
    "worldsim8"
} else if cfg!(feature = "r0") {
    "worldsim0"
} else {
    "worldsim"
};
mod medium;
mod obs;
mod ops;
mod sim;

use ops::*;
use serde::{Deserialize, Serialize};
use simcore::rng::{mix, Rng};
use simcore::{arena, fault, ledger};
use std::collections::BTreeMap;
use std::io::Write;

#[global_allocator]
static GLOBAL: arena::SimAlloc = arena::SimAlloc;

#[derive(Clone, Debug, Serialize, Deserialize)]
pub struct Replay {
    pub engine: String,
    pub profile: String,
    pub seed: u64,
    pub index: u64,
    #[serde(default)]
    pub sub: Option<String>,
    pub run_seed: u64,
    pub nslots: u8,
    pub ops: Vec<Op>,
    #[serde(default)]
    pub expect: Option<ExpectedViolation>,
    #[serde(default)]
    pub log_hash: Option<String>,
}

#[derive(Clone, Debug, Serialize, Deserialize, PartialEq)]
pub struct ExpectedViolation {
    pub property: String,
    pub oracle: String,
    pub text: String,
    pub op: u32,
}

#[derive(Clone, Debug, Default, Serialize)]
pub struct RunOut {
    pub index: u64,
    pub sub: Option<String>,
    pub run_seed: u64,
    pub nslots: u8,
    pub nops: usize,
    pub ops_executed: u32,
    pub log_hash: String,
    pub violation: Option<ExpectedViolation>,
    pub probes: BTreeMap<String, u64>,
    pub faults: BTreeMap<String, u64>,
    pub states: Vec<u64>,
    pub callbacks: [u64; fault::NKINDS],
    pub allocs: u64,
    pub peak_bytes: u64,
    pub op_hist: BTreeMap<String, u64>,
    pub history_hash: String,
    /// Callback counts of the last top-level operation (used by the enumeration tiers).
    pub last_counts: [u64; fault::NKINDS],
    pub stream_len: usize,
    #[serde(skip)]
    pub alt_variants: Vec<u8>,
    #[serde(skip)]
    pub identifier_count: usize,
}

fn hash_ops(ops: &[Op]) -> u64 {
    let s = serde_json::to_string(ops).unwrap();
    let mut h = simcore::rng::Fnv::default();
    h.bytes(s.as_bytes());
    h.0
}

/// Execute one history in a fresh arena. Everything allocated during the run is gone afterwards.
pub fn run_ops(ops: &[Op], nslots: u8, run_seed: u64, verbose: bool, probe_stream: Option<(u8, u8)>) -> RunOut {
    arena::begin_run();
    ledger::reset();
    fault::reset_run();
    let _ = simcore::take_panic();
    let mut out = RunOut::default();
    {
        let mut violation: Option<sim::Violation> = None;
        let mut executed = 0u32;
        let mut log_hash = 0u64;
        let mut probes = BTreeMap::new();
        let mut faults = BTreeMap::new();
        let mut states = Vec::new();
        let mut op_hist = BTreeMap::new();
        let mut last_counts = [0u64; fault::NKINDS];
        let mut stream_len = 0usize;
        let mut alt_variants: Vec<u8> = Vec::new();
        let mut identifier_count = 0usize;
        match sim::Sim::new(nslots.max(1) as usize, run_seed, verbose) {
            Err(v) => violation = Some(v),
            Ok(mut s) => {
                for (i, op) in ops.iter().enumerate() {
                    if verbose {
                        eprintln!("op {} {:?}", i + 1, op);
                    }
                    let r = s.step(op);
                    last_counts = fault::counts();
                    if let Err(v) = r {
                        violation = Some(v);
                        break;
                    }
                }
                if violation.is_none() {
                    if let Some((slot, enc)) = probe_stream {
                        let si = slot as usize % s.slots.len();
                        if let Some(w) = s.slots[si].world.as_ref() {
                            if let Ok(Ok(st)) = sim::sut(|| medium::serialize(w, enc)) {
                                stream_len = st.len();
                                // Encode alteration variant counts in the probes for the enumerator.
                                let mut v = Vec::with_capacity(st.len());
                                for p in 0..st.len() {
                                    let g = if medium::is_group_start(&st, p) { 0x80 } else { 0 };
                                    v.push(medium::alt_variants(&st, p) as u8 | g);
                                }
                                alt_variants = v;
                                identifier_count = medium::identifier_count(&st);
                            }
                        }
                    }
                    if let Err(v) = s.finish() {
                        violation = Some(v);
                    }
                }
                executed = s.opix;
                log_hash = s.log.0;
                for (k, v) in s.probes.0.iter() {
                    probes.insert(k.to_string(), *v);
                }
                faults = s.faults_fired.clone();
                if s.fault_armed_unfired > 0 {
                    faults.insert("armed-but-not-reached".into(), s.fault_armed_unfired);
                }
                states = s.states.iter().copied().collect();
                for n in s.executed.iter() {
                    *op_hist.entry(n.to_string()).or_insert(0) += 1;
                }
                let balance_off = s.balance_off || s.tolerated_leak;
                drop(s);
                if violation.is_none() && !balance_off {
                    let st = arena::stats();
                    if st.live_sut != 0 && arena::audits_enabled() {
                        violation = Some(sim::Violation {
                            prop: "C05",
                            oracle: "arena-leak".into(),
                            text: format!(
                                "{} allocations ({} bytes) obtained by the library are still live after every world was dropped",
                                st.live_sut, st.live_sut_bytes
                            ),
                            op: executed,
                        });
                    }
                }
            }
        }
        if violation.is_none() {
            if let Some(p) = simcore::take_panic() {
                // A panic that was caught and classified is always taken by the classifier; one left
                // here was swallowed somewhere.
                violation = Some(sim::Violation { prop: "C05", oracle: "stray-panic".into(), text: p, op: executed });
            }
        }
        let st = arena::stats();
        out.nops = ops.len();
        out.ops_executed = executed;
        out.log_hash = format!("{log_hash:016x}");
        out.violation = violation.map(|v| ExpectedViolation { property: v.prop.to_string(), oracle: v.oracle, text: v.text, op: v.op });
        out.probes = probes;
        out.faults = faults;
        out.states = states;
        out.callbacks = fault::totals();
        out.allocs = st.allocs;
        out.peak_bytes = st.peak_bytes;
        out.op_hist = op_hist;
        out.last_counts = last_counts;
        out.stream_len = stream_len;
        out.alt_variants = alt_variants;
        out.identifier_count = identifier_count;
    }
    ledger::reset();
    let _ = simcore::take_panic();
    arena::end_run();
    // Copy the result out of the arena.
    let copy = RunOut {
        index: 0,
        sub: None,
        run_seed,
        nslots,
        nops: out.nops,
        ops_executed: out.ops_executed,
        log_hash: out.log_hash.as_str().to_owned(),
        violation: out.violation.as_ref().map(|v| ExpectedViolation {
            property: v.property.as_str().to_owned(),
            oracle: v.oracle.as_str().to_owned(),
            text: v.text.as_str().to_owned(),
            op: v.op,
        }),
        probes: out.probes.iter().map(|(k, v)| (k.as_str().to_owned(), *v)).collect(),
        faults: out.faults.iter().map(|(k, v)| (k.as_str().to_owned(), *v)).collect(),
        states: out.states.iter().copied().collect(),
        callbacks: out.callbacks,
        allocs: out.allocs,
        peak_bytes: out.peak_bytes,
        op_hist: out.op_hist.iter().map(|(k, v)| (k.as_str().to_owned(), *v)).collect(),
        history_hash: format!("{:016x}", hash_ops(ops)),
        last_counts: out.last_counts,
        stream_len: out.stream_len,
        alt_variants: out.alt_variants.iter().copied().collect(),
        identifier_count: out.identifier_count,
    };
    drop(out);
    copy
}

fn run_seed_for(seed: u64, profile: &str, index: u64) -> u64 {
    let mut h = simcore::rng::Fnv::default();
    h.bytes(profile.as_bytes());
    mix(&[seed, 0xE1, h.0, index])
}

struct Args {
    profile: String,
    seed: u64,
    from: u64,
    count: u64,
    thorough: bool,
    budget_ms: u64,
    index: u64,
    verbose: bool,
    file: Option<String>,
    emit_sub: Option<String>,
    max_ops: usize,
}

fn parse_args(args: &[String]) -> Args {
    let mut a = Args {
        profile: "C01".into(),
        seed: 1,
        from: 0,
        count: 1,
        thorough: false,
        budget_ms: 0,
        index: 0,
        verbose: false,
        file: None,
        emit_sub: None,
        max_ops: 0,
    };
    let mut i = 0;
    while i < args.len() {
        let next = |i: &mut usize| -> String {
            *i += 1;
            args.get(*i).cloned().unwrap_or_else(|| {
                eprintln!("missing value for {}", args[*i - 1]);
                std::process::exit(2)
            })
        };
        match args[i].as_str() {
            "--profile" => a.profile = next(&mut i),
            "--seed" => a.seed = next(&mut i).parse().unwrap_or(1),
            "--from" => a.from = next(&mut i).parse().unwrap_or(0),
            "--count" => a.count = next(&mut i).parse().unwrap_or(1),
            "--index" => a.index = next(&mut i).parse().unwrap_or(0),
            "--budget-ms" => a.budget_ms = next(&mut i).parse().unwrap_or(0),
            "--sub" => a.emit_sub = Some(next(&mut i)),
            "--max-ops" => a.max_ops = next(&mut i).parse().unwrap_or(0),
            "--thorough" => a.thorough = true,
            "--verbose" => a.verbose = true,
            s if !s.starts_with("--") && a.file.is_none() => a.file = Some(s.to_string()),
            s => {
                eprintln!("unknown argument {s}");
                std::process::exit(2);
            }
        }
        i += 1;
    }
    a
}

fn emit(out: &mut impl Write, tag: &str, v: &impl Serialize) {
    let s = serde_json::to_string(v).unwrap();
    writeln!(out, "{tag} {s}").unwrap();
    out.flush().unwrap();
}

fn replay_of(a: &Args, index: u64, sub: Option<String>, run_seed: u64, nslots: u8, ops: &[Op], r: &RunOut) -> Replay {
    Replay {
        engine: ENGINE.into(),
        profile: a.profile.clone(),
        seed: a.seed,
        index,
        sub,
        run_seed,
        nslots,
        ops: ops.to_vec(),
        expect: r.violation.clone(),
        log_hash: Some(r.log_hash.clone()),
    }
}

/// Plain exploration profiles: one history per index.
fn explore_one(a: &Args, index: u64) -> (RunOut, Vec<Op>, u8) {
    let run_seed = run_seed_for(a.seed, &a.profile, index);
    let mut cfg = gen::make_config(&a.profile, run_seed, a.thorough);
    if a.max_ops > 0 {
        cfg.len = cfg.len.min(a.max_ops as u16);
    }
    let ops = gen::gen_history(&cfg, run_seed);
    let mut r = run_ops(&ops, cfg.nslots, run_seed, a.verbose, None);
    r.index = index;
    (r, ops, cfg.nslots)
}

/// C11: for one base world, enumerate single stream faults at every position, plus seeded double
/// faults. Each attempt is a complete, independently replayable run.
fn enumerate_c11(a: &Args, index: u64, out: &mut impl Write) -> Option<Replay> {
    let run_seed = run_seed_for(a.seed, &a.profile, index);
    let mut rng = Rng::new(run_seed, gen::STREAM_WORKLOAD);
    let prefix = gen::gen_small_world(&mut rng, 0, if a.thorough { 14 } else { 9 });
    let enc = (index % medium::NENC as u64) as u8;
    // Every third base world is read through `deserialize_in_place` over a populated world.
    let in_place = index % 3 == 2;
    let mut prefix = prefix;
    if in_place {
        prefix.extend(gen::gen_small_world(&mut rng, 1, 4));
    }
    let cont = gen::gen_continuation(&mut rng, 1, 5);
    // Dry run to learn the stream length and per-token alteration counts.
    let dry = run_ops(&prefix, 2, run_seed, false, Some((0, enc)));
    let variants = dry.alt_variants.clone();
    let mut agg = dry.clone_light();
    agg.index = index;
    if let Some(_v) = &dry.violation {
        let rep = replay_of(a, index, Some("prefix".into()), run_seed, 2, &prefix, &dry);
        agg.violation = dry.violation.clone();
        emit(out, "RUN", &agg);
        return Some(rep);
    }
    let n = dry.stream_len;
    let mut faults: Vec<Vec<StreamFault>> = Vec::new();
    let stride = if (enc == 2 || enc == 4) && !a.thorough { 3 } else { 1 };
    let mut pos = 0;
    while pos < n {
        for kind in ["del", "dup", "swap", "cut"] {
            faults.push(vec![StreamFault { kind: kind.into(), pos, arg: 0 }]);
        }
        let nv = variants.get(pos).copied().unwrap_or(0);
        if nv & 0x80 != 0 {
            for kind in ["delgroup", "dupgroup", "swapgroup"] {
                faults.push(vec![StreamFault { kind: kind.into(), pos, arg: 0 }]);
            }
        }
        let nv = nv & 0x7F;
        for v in 0..nv {
            faults.push(vec![StreamFault { kind: "alt".into(), pos, arg: v as i64 }]);
        }
        if enc != 2 && enc != 4 && rng.chance(1, 4) {
            faults.push(vec![StreamFault { kind: "move".into(), pos, arg: rng.below(n as u64) as i64 }]);
        }
        pos += stride;
    }
    // Cross-section inconsistencies: every ordered pair of serialized identifiers, with and without
    // the declared allocator length following (bounded for larger worlds).
    let nid = dry.identifier_count;
    if nid >= 2 {
        let step = if nid * nid > 400 { (nid * nid / 400).max(1) } else { 1 };
        let mut k = 0usize;
        for x in 0..nid {
            for y in 0..nid {
                if x == y {
                    continue;
                }
                k += 1;
                if k % step != 0 {
                    continue;
                }
                faults.push(vec![StreamFault { kind: "alias".into(), pos: x, arg: y as i64 }]);
                faults.push(vec![StreamFault { kind: "alias".into(), pos: x, arg: -(y as i64) - (nid as i64) * 0 - if y == 0 { nid as i64 } else { 0 } }]);
            }
        }
    }
    let mut frng = Rng::new(run_seed, gen::STREAM_FAULT);
    let doubles = if a.thorough { n } else { n / 3 };
    for _ in 0..doubles {
        let mut fs = Vec::new();
        for _ in 0..2 {
            let kind = *frng.pick(&["del", "dup", "swap", "alt", "alt", "alt", "move"]);
            fs.push(StreamFault { kind: kind.into(), pos: frng.below(n.max(1) as u64) as usize, arg: frng.below(9) as i64 });
        }
        faults.push(fs);
    }
    let mut attempts = 0u64;
    let mut nviol = 0u64;
    let mut classes = std::collections::BTreeSet::new();
    let mut distinct = std::collections::BTreeSet::new();
    for fs in faults {
        let mut ops = prefix.clone();
        ops.push(Op::Corrupt { src: 0, dst: 1, enc, faults: fs.clone(), in_place });
        ops.extend(cont.iter().cloned());
        attempts += 1;
        if let Some(rep) = attempt_header(a, out, index, &format!("{attempts}"), run_seed, &ops) {
            return Some(rep);
        }
        if a.emit_sub.is_some() {
            continue;
        }
        let r = run_ops(&ops, 2, run_seed, false, None);
        agg.absorb(&r);
        if r.probes.get("corrupt_rejected").is_some() || r.probes.get("corrupt_accepted").is_some() {
            distinct.insert(r.history_hash.clone());
        }
        if r.violation.is_some() {
            let sub = format!("{}", attempts);
            let rep = replay_of(a, index, Some(sub.clone()), run_seed, 2, &ops, &r);
            if agg.violation.is_none() {
                agg.violation = r.violation.clone();
                agg.sub = Some(sub);
            }
            nviol += 1;
            let class = violation_class(&rep);
            if classes.insert(class) && classes.len() <= 12 {
                emit(out, "REPLAY", &rep);
            }
        }
    }
    agg.probes.insert("enum_violating_attempts".into(), nviol);
    agg.probes.insert("enum_attempts".into(), attempts);
    agg.probes.insert("enum_distinct_nontrivial".into(), distinct.len() as u64);
    agg.probes.insert("enum_stream_units".into(), n as u64);
    emit(out, "RUN", &agg);
    None
}

/// Announce an enumeration attempt (so that a dying worker identifies it); in emit mode return
/// the replay of the requested attempt instead of executing it.
fn attempt_header(a: &Args, out: &mut impl Write, index: u64, sub: &str, run_seed: u64, ops: &[Op]) -> Option<Replay> {
    if let Some(want) = &a.emit_sub {
        if want == sub {
            return Some(Replay {
                engine: ENGINE.into(),
                profile: a.profile.clone(),
                seed: a.seed,
                index,
                sub: Some(sub.to_string()),
                run_seed,
                nslots: 2,
                ops: ops.to_vec(),
                expect: None,
                log_hash: None,
            });
        }
        return None;
    }
    writeln!(out, "A {index} {sub}").unwrap();
    out.flush().unwrap();
    None
}

/// Coarse class of a violation, used to report each kind once per base history.
fn violation_class(rep: &Replay) -> String {
    let mut site = String::new();
    for op in &rep.ops {
        match op {
            Op::FaultAt { kind, inner, as_error, .. } => site = format!("{}{}@{}", kind, if *as_error { "-err" } else { "" }, inner.name()),
            Op::Corrupt { enc, faults, .. } => {
                site = format!("enc{}:{}", enc, faults.iter().map(|f| f.kind.as_str()).collect::<Vec<_>>().join("+"))
            }
            _ => {}
        }
    }
    let v = rep.expect.as_ref().unwrap();
    format!("{}|{}|{}", v.property, v.oracle, site)
}

const C17_TARGETS: usize = 16;

fn c17_target(rng: &mut Rng, which: usize) -> Op {
    let pick = Pick { kind: 0, k: rng.below(1 << 20) as u32 };
    match which {
        0 => Op::Remove { slot: 0, pick },
        1 => Op::Clear { slot: 0 },
        2 => Op::Entry { slot: 0, pick, steps: vec![(true, rng.below((g::NC as u64).max(1)) as u8, rng.next_u64())] },
        3 => Op::Entry { slot: 0, pick, steps: vec![(false, rng.below((g::NC as u64).max(1)) as u8, 0)] },
        4 => Op::DropWorld { slot: 0 },
        5 => Op::Clone { src: 0, dst: 1 },
        6 => Op::CloneFrom { src: 0, dst: 1 },
        7 => Op::EqCheck { a: 0, b: 1 },
        8 => Op::DebugFmt { slot: 0 },
        9 => Op::RoundTrip { src: 0, dst: 1, enc: rng.below(crate::medium::NENC as u64) as u8, in_place: rng.chance(1, 2) },
        10 => Op::RoundTrip { src: 0, dst: 0, enc: rng.below(crate::medium::NENC as u64) as u8, in_place: false },
        11 => Op::Extend { slot: 0, how: 1, site: rng.below(g::CLONED_SITES.len() as u64) as u16, n: rng.range(1, 4) as u16, extra: 0, seed: rng.next_u64() },
        12 => Op::Crash { slot: 0 },
        // Deserialization of a damaged stream: the destructors that run while the library cleans
        // up after the error (or replaces the destination) are failure points as well.
        14 | 15 => Op::Corrupt {
            src: 0,
            dst: 1,
            enc: rng.below(crate::medium::NENC as u64) as u8,
            faults: vec![StreamFault {
                kind: (*rng.pick(&["cut", "cut", "del", "dup", "alt", "delgroup", "dupgroup", "swap"])).to_string(),
                pos: rng.below(1 << 20) as usize,
                arg: rng.below(8) as i64,
            }],
            in_place: rng.chance(1, 2),
        },
        _ => Op::Entry {
            slot: 0,
            pick,
            steps: vec![
                (true, rng.below((g::NC as u64).max(1)) as u8, rng.next_u64()),
                (false, rng.below((g::NC as u64).max(1)) as u8, 0),
                (true, rng.below((g::NC as u64).max(1)) as u8, rng.next_u64()),
            ],
        },
    }
}

/// C17: for one base history and one target operation, inject a failure at every callback
/// position of every kind the operation invokes.
fn enumerate_c17(a: &Args, index: u64, out: &mut impl Write) -> Option<Replay> {
    let run_seed = run_seed_for(a.seed, &a.profile, index);
    let mut rng = Rng::new(run_seed, gen::STREAM_WORKLOAD);
    let mut prefix = gen::gen_small_world(&mut rng, 0, if a.thorough { 12 } else { 8 });
    // A second world related to the first (for clone_from / eq targets), and a snapshot.
    match rng.below(4) {
        0 => prefix.push(Op::Clone { src: 0, dst: 1 }),
        1 => prefix.extend(gen::gen_small_world(&mut rng, 1, 4)),
        2 => {
            // The second world has the same tables, emptied (their columns keep a small capacity),
            // and the first one then outgrows them: copying reallocates columns that look empty.
            prefix.push(Op::Clone { src: 0, dst: 1 });
            if rng.chance(1, 2) {
                prefix.push(Op::Clear { slot: 1 });
            } else {
                for _ in 0..rng.range(1, 4) {
                    prefix.push(Op::Remove { slot: 1, pick: Pick { kind: 0, k: rng.below(1 << 20) as u32 } });
                }
            }
            let grow: Vec<Op> = prefix.iter().filter(|o| matches!(o, Op::Insert { slot: 0, .. } | Op::Extend { slot: 0, .. })).cloned().collect();
            if !grow.is_empty() {
                match grow[rng.usize_below(grow.len())].clone() {
                    Op::Insert { site, .. } => {
                        for _ in 0..rng.range(4, 9) {
                            prefix.push(Op::Insert { slot: 0, site, seed: rng.next_u64() });
                        }
                    }
                    Op::Extend { how, site, extra, .. } => prefix.push(Op::Extend { slot: 0, how, site, n: rng.range(5, 12) as u16, extra, seed: rng.next_u64() }),
                    _ => {}
                }
            }
        }
        _ => {}
    }
    if rng.chance(1, 2) {
        prefix.push(Op::Snapshot { slot: 0, enc: rng.below(crate::medium::NENC as u64) as u8 });
        prefix.extend(gen::gen_small_world(&mut rng, 0, 3));
    }
    let target = c17_target(&mut rng, (index as usize) % C17_TARGETS);
    let cont0 = gen::gen_continuation(&mut rng, 0, 4);
    let cont1 = gen::gen_continuation(&mut rng, 1, 2);
    let mut dry_ops = prefix.clone();
    dry_ops.push(target.clone());
    let dry = run_ops(&dry_ops, 2, run_seed, false, None);
    let mut agg = dry.clone_light();
    agg.index = index;
    if dry.violation.is_some() {
        let rep = replay_of(a, index, Some("dry".into()), run_seed, 2, &dry_ops, &dry);
        agg.violation = dry.violation.clone();
        emit(out, "RUN", &agg);
        return Some(rep);
    }
    let counts = dry.last_counts;
    let mut attempts = 0u64;
    let mut fired = 0u64;
    let mut nviol = 0u64;
    let mut classes = std::collections::BTreeSet::new();
    let mut distinct = std::collections::BTreeSet::new();
    for kind in 0..fault::NKINDS {
        let kname = fault::KIND_NAMES[kind];
        let n = counts[kind];
        // (An injected `Err` inside the deserialization of a damaged stream is indistinguishable from
        // the rejection the stream fault causes anyway, so only panics are injected there.)
        let modes: &[bool] =
            if (kind == fault::Kind::Ser as usize || kind == fault::Kind::De as usize) && !matches!(target, Op::Corrupt { .. }) { &[false, true] } else { &[false] };
        for as_error in modes {
            for k in 1..=n {
                let mut ops = prefix.clone();
                ops.push(Op::FaultAt { kind: kname.into(), k: k as u32, as_error: *as_error, inner: Box::new(target.clone()) });
                ops.extend(cont0.iter().cloned());
                ops.extend(cont1.iter().cloned());
                attempts += 1;
                let sub = format!("{kname}{}#{k}", if *as_error { "-err" } else { "" });
                if let Some(rep) = attempt_header(a, out, index, &sub, run_seed, &ops) {
                    return Some(rep);
                }
                if a.emit_sub.is_some() {
                    continue;
                }
                let r = run_ops(&ops, 2, run_seed, false, None);
                agg.absorb(&r);
                if r.probes.get("fault_fired").is_some() {
                    fired += 1;
                    distinct.insert(r.history_hash.clone());
                }
                if r.violation.is_some() {
                    let rep = replay_of(a, index, Some(sub.clone()), run_seed, 2, &ops, &r);
                    if agg.violation.is_none() {
                        agg.violation = r.violation.clone();
                        agg.sub = Some(sub);
                    }
                    nviol += 1;
                    let class = violation_class(&rep);
                    if classes.insert(class) && classes.len() <= 12 {
                        emit(out, "REPLAY", &rep);
                    }
                }
            }
        }
    }
    agg.probes.insert("enum_violating_attempts".into(), nviol);
    agg.probes.insert("enum_attempts".into(), attempts);
    agg.probes.insert("enum_fired".into(), fired);
    agg.probes.insert("enum_distinct_nontrivial".into(), distinct.len() as u64);
    *agg.probes.entry(format!("target_{}", target.name())).or_insert(0) += 1;
    emit(out, "RUN", &agg);
    None
}

impl RunOut {
    fn clone_light(&self) -> RunOut {
        RunOut {
            index: self.index,
            sub: None,
            run_seed: self.run_seed,
            nslots: self.nslots,
            nops: self.nops,
            ops_executed: self.ops_executed,
            log_hash: self.log_hash.clone(),
            violation: None,
            probes: self.probes.clone(),
            faults: self.faults.clone(),
            states: self.states.clone(),
            callbacks: self.callbacks,
            allocs: self.allocs,
            peak_bytes: self.peak_bytes,
            op_hist: self.op_hist.clone(),
            history_hash: self.history_hash.clone(),
            last_counts: self.last_counts,
            stream_len: self.stream_len,
            alt_variants: Vec::new(),
            identifier_count: 0,
        }
    }
    fn absorb(&mut self, r: &RunOut) {
        for (k, v) in &r.probes {
            *self.probes.entry(k.clone()).or_insert(0) += v;
        }
        for (k, v) in &r.faults {
            *self.faults.entry(k.clone()).or_insert(0) += v;
        }
        for (k, v) in &r.op_hist {
            *self.op_hist.entry(k.clone()).or_insert(0) += v;
        }
        if self.states.len() < 4096 {
            for s in &r.states {
                if !self.states.contains(s) {
                    self.states.push(*s);
                }
            }
        }
        for i in 0..fault::NKINDS {
            self.callbacks[i] += r.callbacks[i];
        }
        self.allocs += r.allocs;
        self.ops_executed += r.ops_executed;
        self.peak_bytes = self.peak_bytes.max(r.peak_bytes);
        // The event-log hash of an enumeration is the hash chain of its attempts.
        let mut h = simcore::rng::Fnv::default();
        h.bytes(self.log_hash.as_bytes());
        h.bytes(r.log_hash.as_bytes());
        self.log_hash = format!("{:016x}", h.0);
    }
}

fn main() {
    let argv: Vec<String> = std::env::args().collect();
    if argv.len() < 2 {
        eprintln!("usage: worldsim run|replay|emit ...");
        std::process::exit(2);
    }
    let a = parse_args(&argv[2..]);
    simcore::install_panic_hook(a.verbose);
    let stdout = std::io::stdout();
    let mut out = stdout.lock();
    writeln!(out, "HELLO {} registry={} arena={}", ENGINE, g::NAME, arena::audits_enabled()).unwrap();
    out.flush().unwrap();
    // Warm up the panic machinery outside any run.
    let _ = std::panic::catch_unwind(|| std::panic::panic_any(fault::Injected { kind: fault::Kind::Clone, k: 0 }));
    match argv[1].as_str() {
        "run" => {
            let t0 = std::time::Instant::now();
            let mut done = 0u64;
            for index in a.from..a.from + a.count {
                if a.budget_ms > 0 && t0.elapsed().as_millis() as u64 > a.budget_ms {
                    break;
                }
                let run_seed = run_seed_for(a.seed, &a.profile, index);
                writeln!(out, "START {index} {run_seed}").unwrap();
                out.flush().unwrap();
                let rep = match a.profile.as_str() {
                    "C11" => enumerate_c11(&a, index, &mut out),
                    "C17" => enumerate_c17(&a, index, &mut out),
                    _ => {
                        let (r, ops, nslots) = explore_one(&a, index);
                        emit(&mut out, "RUN", &r);
                        if r.violation.is_some() {
                            Some(replay_of(&a, index, None, run_seed, nslots, &ops, &r))
                        } else {
                            None
                        }
                    }
                };
                done += 1;
                if let Some(rep) = rep {
                    emit(&mut out, "REPLAY", &rep);
                }
            }
            writeln!(out, "DONE {done} {}", t0.elapsed().as_millis()).unwrap();
        }
        "emit" => {
            let run_seed = run_seed_for(a.seed, &a.profile, a.index);
            let mut cfg = gen::make_config(&a.profile, run_seed, a.thorough);
            if a.max_ops > 0 {
                cfg.len = cfg.len.min(a.max_ops as u16);
            }
            let ops = gen::gen_history(&cfg, run_seed);
            let rep = Replay {
                engine: ENGINE.into(),
                profile: a.profile.clone(),
                seed: a.seed,
                index: a.index,
                sub: None,
                run_seed,
                nslots: cfg.nslots,
                ops,
                expect: None,
                log_hash: None,
            };
            emit(&mut out, "REPLAY", &rep);
        }
        "replay" => {
            let Some(f) = a.file.clone() else {
                eprintln!("replay needs a file");
                std::process::exit(2);
            };
            let text = std::fs::read_to_string(&f).unwrap_or_else(|e| {
                eprintln!("cannot read {f}: {e}");
                std::process::exit(2)
            });
            let rep: Replay = serde_json::from_str(&text).unwrap_or_else(|e| {
                eprintln!("cannot parse {f}: {e}");
                std::process::exit(2)
            });
            let r = run_ops(&rep.ops, rep.nslots, rep.run_seed, a.verbose, None);
            emit(&mut out, "RUN", &r);
            match &r.violation {
                Some(v) => {
                    writeln!(out, "VIOLATION property={} replay={} oracle={} op={} :: {}", v.property, f, v.oracle, v.op, v.text).unwrap();
                    std::process::exit(1);
                }
                None => {
                    writeln!(out, "NO-VIOLATION").unwrap();
                }
            }
        }
        other => {
            eprintln!("unknown command {other}");
            std::process::exit(2);
        }
    }
}
