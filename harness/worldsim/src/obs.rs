//! Observation of query results through a trait implemented for every view kind and for
//! heterogeneous lists of views, so that generated code only has to spell out type lists.

use brood::entity;
use simcore::ledger;
use simcore::zoo::Tracked;

pub const K_REF: u8 = 0;
pub const K_MUT: u8 = 1;
pub const K_OPT: u8 = 2;
pub const K_OPTMUT: u8 = 3;
pub const K_ID: u8 = 4;

#[derive(Clone, Copy, Debug, PartialEq, Eq)]
pub struct Item {
    pub comp: u8,
    pub kind: u8,
    pub present: bool,
    pub serial: u64,
    /// Value observed (before any write).
    pub val: u64,
    /// Value after the write, if this observation wrote.
    pub new_val: Option<u64>,
    pub addr: usize,
}

#[derive(Clone, Debug, Default)]
pub struct Rec {
    pub id: Option<(usize, u64)>,
    pub items: Vec<Item>,
    pub write_salt: Option<u64>,
    pub err: Option<String>,
}

impl Rec {
    pub fn new(write_salt: Option<u64>) -> Rec {
        Rec { id: None, items: Vec::new(), write_salt, err: None }
    }
    fn fail(&mut self, e: String) {
        if self.err.is_none() {
            self.err = Some(e);
        }
    }
}

pub fn write_val(old: u64, salt: u64, comp: u8) -> u64 {
    simcore::rng::mix(&[old, salt, comp as u64, 0x77])
}

fn see<T: Tracked>(t: &T, rec: &mut Rec, kind: u8) -> (u64, u64, usize) {
    if let Err(e) = t.integrity() {
        rec.fail(e);
        return (0, 0, t.addr());
    }
    let serial = t.serial();
    if T::HAS_SERIAL && !ledger::is_live(serial, T::IX) {
        rec.fail(format!(
            "observed a {} value that is not live in the drop ledger (view kind {kind}): {}",
            T::NAME,
            ledger::describe(serial)
        ));
    }
    (serial, t.val(), t.addr())
}

pub trait ObsView {
    fn obs(self, rec: &mut Rec);
}

impl<'a, T: Tracked> ObsView for &'a T {
    fn obs(self, rec: &mut Rec) {
        let (serial, val, addr) = see(self, rec, K_REF);
        rec.items.push(Item { comp: T::IX, kind: K_REF, present: true, serial, val, new_val: None, addr });
    }
}

impl<'a, T: Tracked> ObsView for &'a mut T {
    fn obs(self, rec: &mut Rec) {
        let (serial, val, addr) = see(&*self, rec, K_MUT);
        let mut new_val = None;
        if let (Some(salt), None) = (rec.write_salt, rec.err.as_ref()) {
            let nv = T::norm(write_val(val, salt, T::IX));
            self.set_val(nv);
            new_val = Some(nv);
        }
        rec.items.push(Item { comp: T::IX, kind: K_MUT, present: true, serial, val, new_val, addr });
    }
}

impl<'a, T: Tracked> ObsView for Option<&'a T> {
    fn obs(self, rec: &mut Rec) {
        match self {
            Some(t) => {
                let (serial, val, addr) = see(t, rec, K_OPT);
                rec.items.push(Item { comp: T::IX, kind: K_OPT, present: true, serial, val, new_val: None, addr });
            }
            None => rec.items.push(Item {
                comp: T::IX,
                kind: K_OPT,
                present: false,
                serial: 0,
                val: 0,
                new_val: None,
                addr: 0,
            }),
        }
    }
}

impl<'a, T: Tracked> ObsView for Option<&'a mut T> {
    fn obs(self, rec: &mut Rec) {
        match self {
            Some(t) => {
                let (serial, val, addr) = see(&*t, rec, K_OPTMUT);
                let mut new_val = None;
                if let (Some(salt), None) = (rec.write_salt, rec.err.as_ref()) {
                    let nv = T::norm(write_val(val, salt, T::IX));
                    t.set_val(nv);
                    new_val = Some(nv);
                }
                rec.items.push(Item { comp: T::IX, kind: K_OPTMUT, present: true, serial, val, new_val, addr });
            }
            None => rec.items.push(Item {
                comp: T::IX,
                kind: K_OPTMUT,
                present: false,
                serial: 0,
                val: 0,
                new_val: None,
                addr: 0,
            }),
        }
    }
}

impl ObsView for entity::Identifier {
    fn obs(self, rec: &mut Rec) {
        if rec.id.is_some() {
            rec.fail("two identifiers in one result".to_string());
        }
        rec.id = Some(self.verif_parts());
        rec.items.push(Item { comp: 0xFF, kind: K_ID, present: true, serial: 0, val: 0, new_val: None, addr: 0 });
    }
}

impl ObsView for brood::query::view::Null {
    fn obs(self, _rec: &mut Rec) {}
}

impl<H: ObsView, T: ObsView> ObsView for (H, T) {
    fn obs(self, rec: &mut Rec) {
        self.0.obs(rec);
        self.1.obs(rec);
    }
}

/// Consumption modes of a query iterator.
pub const MODE_NEXT: u8 = 0;
pub const MODE_FOLD: u8 = 1;
pub const MODE_NEXT_THEN_FOLD: u8 = 2;

/// Further modes go through `Iterator` methods that an implementation may specialise (`nth`, hence
/// `skip` / `step_by`; `count`; `last`). They do not hand out every item: `drive` then returns the
/// least number of items the iterator can have held and stores in `LAST_SLACK` how many more it may
/// have held (0 = exact).
pub const MODE_NTH: u8 = 3;
pub const MODE_NEXT_THEN_COUNT: u8 = 4;
pub const MODE_NEXT_THEN_LAST: u8 = 5;
pub const NMODES: u8 = 6;
pub static LAST_SLACK: std::sync::atomic::AtomicUsize = std::sync::atomic::AtomicUsize::new(0);

/// Drive an iterator in the given mode, checking `size_hint` before every `next`, and that the
/// iterator is fused. Returns an error text on a `size_hint` violation.
pub fn drive<I: Iterator>(mut iter: I, mode: u8, split: usize, mut f: impl FnMut(I::Item)) -> Result<usize, String> {
    let mut hints: Vec<(usize, Option<usize>)> = Vec::new();
    let mut n = 0usize;
    LAST_SLACK.store(0, std::sync::atomic::Ordering::Relaxed);
    match mode {
        MODE_NTH => {
            // nth(j) with j cycling through a small pattern: every Some stands for j + 1 items; the
            // final None leaves at most j items unaccounted for.
            let mut i = 0usize;
            loop {
                let j = (split + i) % 3;
                i += 1;
                let (lo, _) = iter.size_hint();
                match iter.nth(j) {
                    Some(item) => {
                        n += j + 1;
                        f(item)
                    }
                    None => {
                        if lo > j {
                            return Err(format!("size_hint lower bound {lo} but nth({j}) returned None"));
                        }
                        if iter.next().is_some() {
                            return Err("iterator yielded an item after nth() returned None".to_string());
                        }
                        LAST_SLACK.store(j, std::sync::atomic::Ordering::Relaxed);
                        break;
                    }
                }
            }
            return Ok(n);
        }
        MODE_NEXT_THEN_COUNT | MODE_NEXT_THEN_LAST => {
            for _ in 0..split {
                match iter.next() {
                    Some(item) => {
                        n += 1;
                        f(item)
                    }
                    None => return Ok(n),
                }
            }
            let (lo, hi) = iter.size_hint();
            if mode == MODE_NEXT_THEN_COUNT {
                let c = iter.count();
                if lo > c || hi.map_or(false, |h| h < c) {
                    return Err(format!("size_hint ({lo}, {hi:?}) does not bracket count() = {c}"));
                }
                return Ok(n + c);
            }
            match iter.last() {
                Some(item) => {
                    n += 1;
                    f(item);
                    // Everything between the prefix and the last item went unseen.
                    LAST_SLACK.store(usize::MAX / 2, std::sync::atomic::Ordering::Relaxed);
                }
                None => {
                    if lo > 0 {
                        return Err(format!("size_hint lower bound {lo} but last() returned None"));
                    }
                }
            }
            return Ok(n);
        }
        MODE_FOLD => {
            hints.push(iter.size_hint());
            iter.fold((), |(), item| {
                n += 1;
                f(item)
            });
        }
        MODE_NEXT_THEN_FOLD => {
            let mut done = false;
            for _ in 0..split {
                hints.push(iter.size_hint());
                match iter.next() {
                    Some(item) => {
                        n += 1;
                        f(item)
                    }
                    None => {
                        done = true;
                        break;
                    }
                }
            }
            if !done {
                hints.push(iter.size_hint());
                iter.fold((), |(), item| {
                    n += 1;
                    f(item)
                });
            }
        }
        _ => loop {
            hints.push(iter.size_hint());
            match iter.next() {
                Some(item) => {
                    n += 1;
                    f(item)
                }
                None => {
                    // Fused: must keep returning None, and the hint must now be exact zero-able.
                    let (lo, _) = iter.size_hint();
                    if lo != 0 {
                        return Err(format!("size_hint lower bound {lo} after exhaustion"));
                    }
                    if iter.next().is_some() {
                        return Err("iterator yielded an item after returning None".to_string());
                    }
                    break;
                }
            }
        },
    }
    // hints[i] was taken when i items had been consumed (for the next/then-fold prefixes).
    for (i, (lo, hi)) in hints.iter().enumerate() {
        let remaining = n - i.min(n);
        if *lo > remaining || hi.map_or(false, |h| h < remaining) {
            return Err(format!(
                "size_hint ({lo}, {hi:?}) taken after {i} items does not bracket the true remaining count {remaining}"
            ));
        }
    }
    Ok(n)
}
