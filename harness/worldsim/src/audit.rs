//! Structural audit of a world dump (C13) and cross-check of the dump against the allocator (C05).

use brood::verif::Dump;
use simcore::arena;
use simcore::zoo;
use std::collections::{BTreeMap, BTreeSet};
use std::mem::{align_of, size_of};

pub fn layout_of(comp: usize) -> (usize, usize) {
    match comp {
        0 => (size_of::<zoo::A>(), align_of::<zoo::A>()),
        1 => (size_of::<zoo::Z>(), align_of::<zoo::Z>()),
        2 => (size_of::<zoo::H>(), align_of::<zoo::H>()),
        3 => (size_of::<zoo::O>(), align_of::<zoo::O>()),
        4 => (size_of::<zoo::S>(), align_of::<zoo::S>()),
        5 => (size_of::<zoo::V>(), align_of::<zoo::V>()),
        6 => (size_of::<zoo::W>(), align_of::<zoo::W>()),
        7 => (size_of::<zoo::X>(), align_of::<zoo::X>()),
        8 => (size_of::<zoo::Y>(), align_of::<zoo::Y>()),
        9 => (size_of::<zoo::T>(), align_of::<zoo::T>()),
        _ => unreachable!(),
    }
}

fn bits(bytes: &[u8], nc: usize) -> Vec<usize> {
    (0..nc).filter(|i| bytes[i / 8] >> (i % 8) & 1 == 1).collect()
}

/// Index <-> storage correspondence. `expected_rows` is the model's entity count.
pub fn audit(d: &Dump, nc: usize, expected_rows: usize) -> Result<(), (&'static str, String)> {
    let nbytes = (nc + 7) / 8;
    // (i) each slot is active xor listed as free; the free list has no duplicates and valid indices.
    let mut free_set = BTreeSet::new();
    for f in &d.free {
        if *f >= d.slots.len() {
            return Err(("audit-free-list", format!("free list entry {f} is out of range ({} slots)", d.slots.len())));
        }
        if !free_set.insert(*f) {
            return Err(("audit-free-list", format!("slot {f} is listed twice in the free list {:?}", d.free)));
        }
    }
    let mut active = 0usize;
    for (i, (_gen, loc)) in d.slots.iter().enumerate() {
        match (loc.is_some(), free_set.contains(&i)) {
            (true, true) => return Err(("audit-free-list", format!("slot {i} is active and also listed as free"))),
            (false, false) => {
                return Err((
                    "audit-slot-lost",
                    format!("slot {i} is neither active nor in the free list {:?}: its identifier can never be reused", d.free),
                ))
            }
            (true, false) => active += 1,
            (false, true) => {}
        }
    }
    // (iv) archetype identifiers pairwise distinct, popcount = column count, padding bits zero.
    let mut by_addr: BTreeMap<usize, usize> = BTreeMap::new();
    let mut by_bytes: BTreeMap<Vec<u8>, usize> = BTreeMap::new();
    let mut rows = 0usize;
    for (ai, a) in d.archetypes.iter().enumerate() {
        if a.identifier_bytes.len() != nbytes {
            return Err(("audit-archetype-identifier", format!("archetype {ai}: identifier has {} bytes, expected {nbytes}", a.identifier_bytes.len())));
        }
        if nc % 8 != 0 {
            let last = a.identifier_bytes[nbytes - 1];
            if last >> (nc % 8) != 0 {
                return Err(("audit-archetype-identifier", format!("archetype {ai}: padding bits set in identifier {:?}", a.identifier_bytes)));
            }
        }
        let set = bits(&a.identifier_bytes, nc);
        if set.len() != a.columns.len() {
            return Err(("audit-archetype-columns", format!("archetype {ai} {:?}: {} columns for {} components", a.identifier_bytes, a.columns.len(), set.len())));
        }
        if let Some(prev) = by_bytes.insert(a.identifier_bytes.clone(), ai) {
            return Err((
                "audit-duplicate-table",
                format!("two tables (#{prev} and #{ai}) exist for the same component set {:?}", a.identifier_bytes),
            ));
        }
        if by_addr.insert(a.identifier_addr, ai).is_some() {
            return Err(("audit-archetype-identifier", format!("two archetypes share the identifier buffer at {:#x}", a.identifier_addr)));
        }
        if a.entity_identifiers.len() != a.length {
            return Err(("audit-archetype-rows", format!("archetype {ai}: {} identifiers for length {}", a.entity_identifiers.len(), a.length)));
        }
        rows += a.length;
    }
    // (ii) each active slot points at a row of an archetype of this world holding its identifier.
    let mut pointed: BTreeSet<(usize, usize)> = BTreeSet::new();
    for (i, (gen, loc)) in d.slots.iter().enumerate() {
        if let Some((addr, row)) = loc {
            let Some(ai) = by_addr.get(addr) else {
                return Err((
                    "audit-location-foreign",
                    format!("slot {i} points at archetype identifier {addr:#x}, which belongs to no archetype of this world"),
                ));
            };
            let a = &d.archetypes[*ai];
            if *row >= a.length {
                return Err(("audit-location-row", format!("slot {i} points at row {row} of archetype {ai} which has {} rows", a.length)));
            }
            if a.entity_identifiers[*row] != (i, *gen) {
                return Err((
                    "audit-location-row",
                    format!("slot {i} (generation {gen}) points at row {row} of archetype {ai}, which stores identifier {:?}", a.entity_identifiers[*row]),
                ));
            }
            if !pointed.insert((*ai, *row)) {
                return Err(("audit-location-row", format!("two slots point at row {row} of archetype {ai}")));
            }
        }
    }
    // (iii) every stored row is pointed at by exactly its slot; counts agree.
    if rows != active {
        return Err(("audit-counts", format!("{rows} rows are stored but {active} slots are active")));
    }
    if d.len != rows {
        return Err(("audit-counts", format!("len() = {} but {rows} entities are stored", d.len)));
    }
    if rows != expected_rows {
        return Err(("audit-counts", format!("{rows} entities are stored, the model holds {expected_rows}")));
    }
    // (v) lookup tables refer to live archetypes of this world.
    for addr in &d.type_id_lookup {
        if !by_addr.contains_key(addr) {
            return Err(("audit-lookup-dangling", format!("type-id lookup refers to identifier {addr:#x}, which belongs to no archetype of this world")));
        }
    }
    let mut has_foreign: BTreeSet<usize> = BTreeSet::new();
    for (kaddr, klen, vaddr) in &d.foreign_identifier_lookup {
        if !by_addr.contains_key(vaddr) {
            return Err(("audit-lookup-dangling", format!("identifier-bytes lookup value {vaddr:#x} belongs to no archetype of this world")));
        }
        if kaddr != vaddr || *klen != nbytes {
            return Err((
                "audit-lookup-dangling",
                format!("identifier-bytes lookup key at {kaddr:#x} (len {klen}) is not the identifier buffer {vaddr:#x} of its archetype"),
            ));
        }
        has_foreign.insert(*vaddr);
    }
    for a in &d.archetypes {
        if !has_foreign.contains(&a.identifier_addr) {
            return Err((
                "audit-lookup-missing",
                format!("archetype {:?} has no identifier-bytes lookup entry: a second table for the same component set could be created", a.identifier_bytes),
            ));
        }
    }
    Ok(())
}

/// Every buffer the dump reports must be a live allocation of exactly the layout the library
/// will later free or resize it with.
pub fn arena_crosscheck(d: &Dump, nc: usize) -> Result<(), String> {
    if !arena::audits_enabled() || !arena::is_on() {
        return Ok(());
    }
    let nbytes = (nc + 7) / 8;
    for (ai, a) in d.archetypes.iter().enumerate() {
        if nbytes == 0 {
            // An empty registry has zero-length identifiers: no allocation behind them.
            let (p, cap) = a.entity_identifier_column;
            check_col(ai, "entity identifier", p, cap, 16, 8, a.length)?;
            continue;
        }
        match arena::live_block_at(a.identifier_addr) {
            Some((size, align)) => {
                if size != a.identifier_capacity || align != 1 {
                    return Err(format!(
                        "archetype {ai}: identifier buffer is a block of {size} bytes align {align}, recorded capacity {}",
                        a.identifier_capacity
                    ));
                }
                if size < nbytes {
                    return Err(format!("archetype {ai}: identifier buffer of {size} bytes is shorter than {nbytes}"));
                }
            }
            None => return Err(format!("archetype {ai}: identifier buffer {:#x} is not a live allocation", a.identifier_addr)),
        }
        let (p, cap) = a.entity_identifier_column;
        check_col(ai, "entity identifier", p, cap, 16, 8, a.length)?;
        let set = bits(&a.identifier_bytes, nc);
        if set.len() != a.columns.len() {
            return Err(format!("archetype {ai}: column count mismatch"));
        }
        for (c, (p, cap)) in set.iter().zip(a.columns.iter()) {
            let (size, align) = layout_of(*c);
            check_col(ai, zoo::COMPONENT_NAMES[*c], *p, *cap, size, align, a.length)?;
        }
    }
    Ok(())
}

fn check_col(ai: usize, name: &str, p: usize, cap: usize, size: usize, align: usize, length: usize) -> Result<(), String> {
    if size == 0 {
        return Ok(());
    }
    if cap < length {
        return Err(format!("archetype {ai}: column {name} has capacity {cap} < length {length}"));
    }
    if cap == 0 {
        return Ok(());
    }
    match arena::live_block_at(p) {
        Some((bsize, balign)) => {
            if bsize != cap * size || balign != align {
                return Err(format!(
                    "archetype {ai}: column {name} at {p:#x} is a block of {bsize} bytes align {balign}, but the library records capacity {cap} x {size} bytes align {align}"
                ));
            }
            Ok(())
        }
        None => Err(format!("archetype {ai}: column {name} pointer {p:#x} (capacity {cap}) is not a live allocation")),
    }
}
