//! Operations of a simulated history. Every operation is self-contained (entities are addressed
//! indirectly) so that any sub-list of a history is still executable, which is what the shrinker
//! relies on.

use serde::{Deserialize, Serialize};

#[derive(Clone, Copy, Debug, Serialize, Deserialize, PartialEq, Eq)]
pub struct Pick {
    /// 0 = k-th live entity (mod count), 1 = k-th dead identifier ever issued (mod count).
    pub kind: u8,
    pub k: u32,
}

#[derive(Clone, Debug, Serialize, Deserialize, PartialEq)]
pub struct StreamFault {
    /// "del" | "dup" | "swap" | "cut" | "alt" | "move" | "byte"
    pub kind: String,
    pub pos: usize,
    #[serde(default)]
    pub arg: i64,
}

#[derive(Clone, Debug, Serialize, Deserialize, PartialEq)]
#[serde(tag = "op")]
pub enum Op {
    Insert { slot: u8, site: u16, seed: u64 },
    /// how: 0 = Batch::new on caller-built Vecs, 1 = entities!((..); n) (clones), 2 = entities!((..),(..)).
    Extend { slot: u8, how: u8, site: u16, n: u16, extra: u16, seed: u64 },
    Remove { slot: u8, pick: Pick },
    Clear { slot: u8 },
    /// Several Entry::add / Entry::remove calls on one Entry handle: (add?, component, value).
    Entry { slot: u8, pick: Pick, steps: Vec<(bool, u8, u64)> },
    Query { slot: u8, q: u16, mode: u8, split: u8, salt: Option<u64> },
    EntryQuery { slot: u8, pick: Pick, q: u16, salt: Option<u64> },
    EntriesQuery { slot: u8, q: u16, picks: Vec<Pick>, limit: u8, salt: Option<u64> },
    Reserve { slot: u8, site: u16, n: u16 },
    Shrink { slot: u8 },
    Clone { src: u8, dst: u8 },
    CloneFrom { src: u8, dst: u8 },
    /// enc: 0 = tokens human-readable, 1 = tokens compact, 2 = serde_json text.
    /// in_place: through `Deserialize::deserialize_in_place` into the world that is in `dst`.
    RoundTrip { src: u8, dst: u8, enc: u8, #[serde(default)] in_place: bool },
    Snapshot { slot: u8, enc: u8 },
    /// Drop the world and restart from the last snapshot (or an empty world).
    Crash { slot: u8 },
    DropWorld { slot: u8 },
    /// via: 0 = World::view_resources, 1 = Result::resources of a query with an identifier iterator, 2 = of a query with entry views.
    ResView { slot: u8, site: u16, salt: Option<u64>, #[serde(default)] via: u8 },
    ResGetMut { slot: u8, which: u8, salt: u64 },
    EqCheck { a: u8, b: u8 },
    DebugFmt { slot: u8 },
    Lockstep { a: u8, b: u8, on: bool },
    /// Deserialize a corrupted serialization of `src` into `dst`.
    Corrupt { src: u8, dst: u8, enc: u8, faults: Vec<StreamFault>, #[serde(default)] in_place: bool },
    /// Run `inner` with a callback fault armed: the k-th callback of `kind` fails.
    FaultAt { kind: String, k: u32, as_error: bool, inner: Box<Op> },
}

impl Op {
    pub fn name(&self) -> &'static str {
        match self {
            Op::Insert { .. } => "Insert",
            Op::Extend { .. } => "Extend",
            Op::Remove { .. } => "Remove",
            Op::Clear { .. } => "Clear",
            Op::Entry { .. } => "Entry",
            Op::Query { .. } => "Query",
            Op::EntryQuery { .. } => "EntryQuery",
            Op::EntriesQuery { .. } => "EntriesQuery",
            Op::Reserve { .. } => "Reserve",
            Op::Shrink { .. } => "Shrink",
            Op::Clone { .. } => "Clone",
            Op::CloneFrom { .. } => "CloneFrom",
            Op::RoundTrip { .. } => "RoundTrip",
            Op::Snapshot { .. } => "Snapshot",
            Op::Crash { .. } => "Crash",
            Op::DropWorld { .. } => "DropWorld",
            Op::ResView { .. } => "ResView",
            Op::ResGetMut { .. } => "ResGetMut",
            Op::EqCheck { .. } => "EqCheck",
            Op::DebugFmt { .. } => "DebugFmt",
            Op::Lockstep { .. } => "Lockstep",
            Op::Corrupt { .. } => "Corrupt",
            Op::FaultAt { .. } => "FaultAt",
        }
    }

    /// The slot an operation mutates, for lock-step mirroring.
    pub fn mirror_slot(&self) -> Option<u8> {
        match self {
            Op::Insert { slot, .. }
            | Op::Extend { slot, .. }
            | Op::Remove { slot, .. }
            | Op::Clear { slot }
            | Op::Entry { slot, .. }
            | Op::Query { slot, .. }
            | Op::Reserve { slot, .. }
            | Op::Shrink { slot }
            | Op::ResGetMut { slot, .. } => Some(*slot),
            _ => None,
        }
    }

    pub fn with_slot(&self, s: u8) -> Op {
        let mut o = self.clone();
        match &mut o {
            Op::Insert { slot, .. }
            | Op::Extend { slot, .. }
            | Op::Remove { slot, .. }
            | Op::Clear { slot }
            | Op::Entry { slot, .. }
            | Op::Query { slot, .. }
            | Op::Reserve { slot, .. }
            | Op::Shrink { slot }
            | Op::ResGetMut { slot, .. } => *slot = s,
            _ => {}
        }
        o
    }

    /// Slots whose world this operation may replace or mutate (ends a lock-step that involves them
    /// unless the operation is mirrored).
    pub fn touched_slots(&self) -> Vec<u8> {
        match self {
            Op::Clone { dst, .. } | Op::CloneFrom { dst, .. } | Op::RoundTrip { dst, .. } | Op::Corrupt { dst, .. } => {
                vec![*dst]
            }
            Op::Crash { slot } | Op::DropWorld { slot } => vec![*slot],
            Op::EntryQuery { slot, salt: Some(_), .. }
            | Op::EntriesQuery { slot, salt: Some(_), .. }
            | Op::ResView { slot, salt: Some(_), .. } => vec![*slot],
            Op::FaultAt { inner, .. } => {
                let mut v = inner.touched_slots();
                if let Some(s) = inner.mirror_slot() {
                    v.push(s);
                }
                v
            }
            _ => vec![],
        }
    }
}
