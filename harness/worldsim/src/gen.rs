//! Seeded generation of histories (swarm style): the run seed decides the configuration, the
//! operation mix and every operation argument. Generation needs no execution state because
//! operations address entities indirectly.

use crate::g;
use crate::ops::*;
use serde::{Deserialize, Serialize};
use simcore::rng::Rng;

pub const STREAM_CONFIG: u64 = 1;
pub const STREAM_WORKLOAD: u64 = 2;
pub const STREAM_FAULT: u64 = 4;

#[derive(Clone, Debug, Serialize, Deserialize, PartialEq)]
pub struct Config {
    pub profile: String,
    pub nslots: u8,
    pub len: u16,
    pub weights: Vec<u32>,
    pub batch_law: u8,
    pub max_live_hint: u16,
}

pub const CLASSES: [&str; 25] = [
    "insert",
    "extend",
    "remove",
    "remove_dead",
    "clear",
    "entry",
    "query",
    "query_write",
    "entry_query",
    "entries_query",
    "reserve",
    "shrink",
    "clone",
    "clone_from",
    "roundtrip",
    "snapshot",
    "crash",
    "drop_world",
    "res_view",
    "res_getmut",
    "eq",
    "debug",
    "lockstep",
    "corrupt",
    "ser_de_error",
];

fn base_weights() -> Vec<u32> {
    vec![14, 10, 12, 4, 2, 12, 6, 4, 4, 4, 3, 3, 2, 2, 3, 1, 1, 1, 3, 2, 2, 1, 1, 0, 0]
}

fn ix(name: &str) -> usize {
    CLASSES.iter().position(|c| *c == name).unwrap()
}

/// (class, multiplier) boosts per profile; boosted classes are never dropped by the swarm.
fn boosts(profile: &str) -> Vec<(&'static str, u32)> {
    match profile {
        "C02" => vec![("remove", 2), ("remove_dead", 4), ("extend", 2), ("clear", 2), ("insert", 1)],
        "C03" => vec![("query", 5), ("query_write", 4), ("entry_query", 5), ("entries_query", 5), ("insert", 1), ("entry", 1)],
        "C04" => vec![("entry", 2), ("clear", 3), ("clone_from", 4), ("drop_world", 4), ("extend", 2), ("remove", 1), ("clone", 2)],
        "C05" => vec![("reserve", 5), ("shrink", 5), ("extend", 2), ("entry", 1), ("query_write", 2), ("entries_query", 2)],
        "C06" => vec![("roundtrip", 9), ("snapshot", 4), ("crash", 5), ("remove", 1), ("extend", 1), ("entry", 1), ("clear", 2)],
        "C10" => vec![("clone", 8), ("clone_from", 8), ("drop_world", 3), ("lockstep", 3), ("entry", 1), ("remove", 1), ("shrink", 2)],
        "C13" => vec![("shrink", 3), ("clone_from", 3), ("roundtrip", 3), ("extend", 2), ("remove", 2), ("entry", 2), ("clear", 2)],
        "C15" => vec![("res_view", 8), ("res_getmut", 6), ("clone", 3), ("clone_from", 3), ("roundtrip", 3), ("crash", 2), ("snapshot", 2)],
        "C16" => vec![("eq", 10), ("clone", 5), ("roundtrip", 4), ("entry", 2), ("res_getmut", 2), ("query_write", 2), ("remove", 1), ("insert", 1)],
        _ => vec![("insert", 1), ("remove", 1)],
    }
}

pub fn make_config(profile: &str, run_seed: u64, tier_thorough: bool) -> Config {
    let mut rng = Rng::new(run_seed, STREAM_CONFIG);
    let mut w = base_weights();
    let b = boosts(profile);
    for (c, m) in &b {
        w[ix(c)] *= *m;
    }
    // Failing media inside ordinary histories (base weight 0, so a multiplier would not do): a
    // damaged stream, and a serializer / deserializer error at some component.
    let media = match profile {
        "C04" | "C05" => 4,
        "C06" | "C13" => 2,
        _ => 0,
    };
    w[ix("corrupt")] = media;
    w[ix("ser_de_error")] = media;
    // Swarm: drop each non-essential class with probability 1/4.
    for (i, c) in CLASSES.iter().enumerate() {
        if !b.iter().any(|(n, _)| n == c) && rng.chance(1, 4) {
            w[i] = 0;
        }
    }
    let min_slots = match profile {
        "C06" | "C10" | "C16" | "C15" => 2,
        _ => 1,
    };
    let nslots = rng.range(min_slots, 3) as u8;
    if nslots < 2 {
        for c in ["clone", "clone_from", "lockstep", "eq"] {
            w[ix(c)] = 0;
        }
    }
    let max_len = if tier_thorough { 200 } else { 120 };
    let len = rng.geometric(4, max_len, if tier_thorough { 40 } else { 24 }) as u16;
    // One run in 400 works on a big world (and is short).
    // (Under the Miri interpreter the large worlds would take hours: the draws are made, the worlds are not.)
    let big = rng.chance(1, 400);
    // One run in 300 starts from a world with very many archetype tables (and is short).
    let many = !big && rng.chance(1, 300);
    // One run in 8000 works on a huge world: more identifier slots than fit in 16 bits.
    let huge = !big && !many && g::NC > 0 && rng.chance(1, 8000);
    let (big, many, huge) = if cfg!(miri) { (false, false, false) } else { (big, many, huge) };
    let len = if huge { len.min(4) } else if big || many { len.min(10) } else { len };
    Config {
        profile: profile.to_string(),
        nslots,
        len,
        weights: w,
        batch_law: if huge { 10 } else if big { 9 } else if many { 8 } else { rng.below(4) as u8 },
        max_live_hint: *rng.pick(&[8u16, 30, 120, 400]),
    }
}

fn pick_live(rng: &mut Rng) -> Pick {
    Pick { kind: 0, k: rng.below(1 << 20) as u32 }
}
fn pick_dead(rng: &mut Rng) -> Pick {
    Pick { kind: 1, k: rng.below(1 << 20) as u32 }
}

fn batch_size(rng: &mut Rng, law: u8) -> u16 {
    match (law, rng.below(10)) {
        (_, 0) => 0,
        (_, 1) => 1,
        (0, _) => rng.range(0, 4) as u16,
        (1, _) => rng.range(1, 9) as u16,
        (2, _) => rng.geometric(0, 40, 6) as u16,
        (_, 2) => rng.range(40, 300) as u16,
        (_, _) => rng.range(2, 16) as u16,
    }
}

fn entry_steps(rng: &mut Rng) -> Vec<(bool, u8, u64)> {
    if g::NC == 0 {
        return Vec::new();
    }
    let n = if rng.chance(1, 3) { rng.range(2, 4) } else { 1 };
    (0..n).map(|_| (rng.chance(3, 5), rng.below(g::NC as u64) as u8, rng.next_u64())).collect()
}

pub fn gen_op(rng: &mut Rng, cfg: &Config, class: usize, out: &mut Vec<Op>) {
    let ns = cfg.nslots as u64;
    let slot = rng.below(ns) as u8;
    let other = |rng: &mut Rng, s: u8| -> u8 {
        if ns < 2 {
            s
        } else {
            ((s as u64 + 1 + rng.below(ns - 1)) % ns) as u8
        }
    };
    match CLASSES[class] {
        "insert" => out.push(Op::Insert { slot, site: rng.below(g::INSERT_SITES.len() as u64) as u16, seed: rng.next_u64() }),
        "extend" => {
            let how = *rng.pick(&[0u8, 0, 0, 0, 0, 1, 1, 2, 2, 3]);
            let nsites = match how {
                0 | 3 => g::EXTEND_SITES.len(),
                1 => g::CLONED_SITES.len(),
                _ => g::ROWS_SITES.len(),
            }
            .max(1);
            out.push(Op::Extend {
                slot,
                how,
                site: rng.below(nsites as u64) as u16,
                n: batch_size(rng, cfg.batch_law),
                extra: *rng.pick(&[0u16, 0, 1, 7]),
                seed: rng.next_u64(),
            });
        }
        "remove" => {
            // Bursts of removals build long free lists.
            let n = if rng.chance(1, 4) { rng.range(2, 8) } else { 1 };
            for _ in 0..n {
                out.push(Op::Remove { slot, pick: pick_live(rng) });
            }
        }
        "remove_dead" => out.push(Op::Remove { slot, pick: pick_dead(rng) }),
        "clear" => out.push(Op::Clear { slot }),
        "entry" => {
            let pick = if rng.chance(1, 12) { pick_dead(rng) } else { pick_live(rng) };
            out.push(Op::Entry { slot, pick, steps: entry_steps(rng) });
        }
        "query" => out.push(Op::Query {
            slot,
            q: rng.below(g::QUERIES.len() as u64) as u16,
            mode: rng.below(6) as u8,
            split: rng.below(6) as u8,
            salt: None,
        }),
        "query_write" => out.push(Op::Query {
            slot,
            q: rng.below(g::QUERIES.len() as u64) as u16,
            mode: rng.below(3) as u8,
            split: rng.below(6) as u8,
            salt: Some(rng.next_u64()),
        }),
        "entry_query" => {
            let pick = if rng.chance(1, 10) { pick_dead(rng) } else { pick_live(rng) };
            out.push(Op::EntryQuery {
                slot,
                pick,
                q: rng.below(g::ENTRY_QUERIES.len() as u64) as u16,
                salt: if rng.chance(1, 2) { Some(rng.next_u64()) } else { None },
            });
        }
        "entries_query" => {
            let np = rng.range(0, 4);
            let picks = (0..np).map(|_| if rng.chance(1, 8) { pick_dead(rng) } else { pick_live(rng) }).collect();
            out.push(Op::EntriesQuery {
                slot,
                q: rng.below(g::ENTRIES_QUERIES.len() as u64) as u16,
                picks,
                limit: *rng.pick(&[0u8, 1, 3, 200]),
                salt: if rng.chance(1, 2) { Some(rng.next_u64()) } else { None },
            });
        }
        "reserve" => out.push(Op::Reserve {
            slot,
            site: rng.below(g::RESERVE_SITES.len() as u64) as u16,
            n: *rng.pick(&[0u16, 1, 1, 3, 17, 200, 65535]),
        }),
        "shrink" => out.push(Op::Shrink { slot }),
        "clone" => {
            let dst = other(rng, slot);
            out.push(Op::Clone { src: slot, dst });
            if rng.chance(1, 2) {
                out.push(Op::Lockstep { a: slot, b: dst, on: true });
            }
            if rng.chance(1, 4) {
                // Drop the source right after the clone: the copy must be self-contained.
                out.push(Op::DropWorld { slot });
            }
        }
        "clone_from" => {
            let dst = other(rng, slot);
            out.push(Op::CloneFrom { src: slot, dst });
            if rng.chance(1, 2) {
                out.push(Op::Lockstep { a: slot, b: dst, on: true });
            }
            if rng.chance(1, 5) {
                out.push(Op::DropWorld { slot });
            }
        }
        "roundtrip" => {
            let dst = if ns >= 2 && rng.chance(2, 3) { other(rng, slot) } else { slot };
            out.push(Op::RoundTrip { src: slot, dst, enc: rng.below(crate::medium::NENC as u64) as u8, in_place: rng.chance(1, 4) });
            if dst != slot && rng.chance(2, 3) {
                out.push(Op::Lockstep { a: slot, b: dst, on: true });
            }
        }
        "snapshot" => out.push(Op::Snapshot { slot, enc: rng.below(crate::medium::NENC as u64) as u8 }),
        "crash" => out.push(Op::Crash { slot }),
        "drop_world" => out.push(Op::DropWorld { slot }),
        "res_view" => out.push(Op::ResView {
            slot,
            site: rng.below(g::RESOURCE_VIEWS.len() as u64) as u16,
            salt: if rng.chance(2, 3) { Some(rng.next_u64()) } else { None },
            via: if rng.chance(1, 3) { 1 + rng.below(2) as u8 } else { 0 },
        }),
        "res_getmut" => out.push(Op::ResGetMut { slot, which: rng.below(4) as u8, salt: rng.next_u64() }),
        "eq" => {
            let b = other(rng, slot);
            out.push(Op::EqCheck { a: slot, b });
        }
        "debug" => out.push(Op::DebugFmt { slot }),
        "corrupt" => {
            let dst = other(rng, slot);
            out.push(Op::Corrupt {
                src: slot,
                dst,
                enc: rng.below(crate::medium::NENC as u64) as u8,
                faults: vec![StreamFault {
                    kind: (*rng.pick(&["cut", "cut", "del", "dup", "alt", "alt", "delgroup", "dupgroup", "swap", "move"])).to_string(),
                    pos: rng.below(1 << 20) as usize,
                    arg: rng.below(8) as i64,
                }],
                in_place: rng.chance(1, 3),
            });
        }
        "ser_de_error" => {
            let dst = if ns >= 2 && rng.chance(2, 3) { other(rng, slot) } else { slot };
            let inner = Op::RoundTrip { src: slot, dst, enc: rng.below(crate::medium::NENC as u64) as u8, in_place: rng.chance(1, 3) };
            out.push(Op::FaultAt { kind: (*rng.pick(&["de", "de", "ser"])).to_string(), k: rng.geometric(1, 60, 6) as u32, as_error: true, inner: Box::new(inner) });
        }
        "lockstep" => {
            let b = other(rng, slot);
            out.push(Op::Lockstep { a: slot, b, on: rng.chance(3, 4) });
        }
        _ => unreachable!(),
    }
}

pub fn gen_history(cfg: &Config, run_seed: u64) -> Vec<Op> {
    let mut rng = Rng::new(run_seed, STREAM_WORKLOAD);
    let mut out = Vec::new();
    if cfg.weights.iter().all(|w| *w == 0) {
        return out;
    }
    if cfg.batch_law == 9 {
        // A big world: one table of several thousand rows (beyond any small fixed capacity or
        // threshold), then a short history.
        let site = (0..g::EXTEND_SITES.len()).filter(|s| (1..=3).contains(&g::EXTEND_SITES[*s].1.len())).nth(rng.usize_below(4)).unwrap_or(1);
        out.push(Op::Extend { slot: 0, how: 0, site: site as u16, n: rng.range(4097, 9000) as u16, extra: 0, seed: rng.next_u64() });
    }
    let mut prefix = 0;
    if cfg.batch_law == 10 {
        // A huge world: more than 65536 identifier slots (two batches of one-component entities),
        // a few removals, and a round trip in a token encoding.
        // (small components without heap storage: 200 000 boxed or 384-byte values, copied a few times,
        // would not fit the simulator's arena)
        let sites: Vec<usize> = (0..g::EXTEND_SITES.len()).filter(|s| g::EXTEND_SITES[*s].1.len() == 1 && ![2u8, 3, 5, 8].contains(&g::EXTEND_SITES[*s].1[0])).collect();
        if !sites.is_empty() {
            // 66 000 - 80 000 slots, or (one in three) 196 605: beyond 16 bits resp. beyond 2^17.
            if rng.chance(1, 3) {
                for _ in 0..3 {
                    out.push(Op::Extend { slot: 0, how: 0, site: sites[rng.usize_below(sites.len())] as u16, n: 65535, extra: 0, seed: rng.next_u64() });
                }
            } else {
                for _ in 0..2 {
                    out.push(Op::Extend { slot: 0, how: 0, site: sites[rng.usize_below(sites.len())] as u16, n: rng.range(33000, 40000) as u16, extra: 0, seed: rng.next_u64() });
                }
            }
            for _ in 0..rng.range(0, 3) {
                out.push(Op::Remove { slot: 0, pick: pick_live(&mut rng) });
            }
            let dst = if cfg.nslots >= 2 && rng.chance(1, 2) { 1 } else { 0 };
            match rng.below(3) {
                0 => out.push(Op::RoundTrip { src: 0, dst, enc: *rng.pick(&[0u8, 1, 3]), in_place: false }),
                1 => {
                    // Everything released at once, storage given back, slots used again.
                    out.push(Op::Clear { slot: 0 });
                    out.push(Op::Shrink { slot: 0 });
                    out.push(Op::Insert { slot: 0, site: rng.below(g::INSERT_SITES.len() as u64) as u16, seed: rng.next_u64() });
                }
                _ => {
                    // A copy of a world that is mostly released slots.
                    out.push(Op::Clear { slot: 0 });
                    out.push(Op::Insert { slot: 0, site: rng.below(g::INSERT_SITES.len() as u64) as u16, seed: rng.next_u64() });
                    if cfg.nslots >= 2 {
                        out.push(Op::Clone { src: 0, dst: 1 });
                        out.push(Op::Lockstep { a: 0, b: 1, on: true });
                    }
                }
            }
            prefix = out.len();
        }
    }
    if cfg.batch_law == 8 && g::INSERT_SITES.len() > 70 {
        // A crowded world: one entity of each of 66..=128 distinct shapes (the archetype table
        // itself grows and rehashes; thresholds on the number of tables are crossed). With a
        // second world, a sparse one is then copied over the crowded one.
        let n = rng.range(66, 185.min(g::INSERT_SITES.len() as u64 - 1)) as usize;
        let mut sites: Vec<u16> = (0..g::INSERT_SITES.len() as u16).collect();
        for i in 0..n {
            let j = i + rng.usize_below(sites.len() - i);
            sites.swap(i, j);
            out.push(Op::Insert { slot: 0, site: sites[i], seed: rng.next_u64() });
        }
        if cfg.nslots >= 2 && rng.chance(2, 3) {
            let k = rng.range(1, 4);
            for _ in 0..k {
                out.push(Op::Insert { slot: 1, site: sites[rng.usize_below(8)], seed: rng.next_u64() });
            }
            if rng.chance(1, 2) {
                out.push(Op::Remove { slot: 1, pick: pick_live(&mut rng) });
            }
            out.push(if rng.chance(1, 2) { Op::CloneFrom { src: 1, dst: 0 } } else { Op::CloneFrom { src: 0, dst: 1 } });
            for _ in 0..rng.range(1, 4) {
                out.push(Op::Insert { slot: 0, site: sites[rng.usize_below(n.min(8))], seed: rng.next_u64() });
            }
        }
        prefix = out.len();
    }
    if cfg.profile == "C16" && cfg.nslots >= 2 && prefix == 0 && cfg.batch_law != 9 && g::NC > 0 && rng.chance(1, 3) {
        // Twin worlds: two worlds built independently from the same values, the second one in another
        // order, then rows permuted by moving an entity to another table and back. Such pairs have
        // equal columns wherever the orders agree and differ only in which entity owns which row
        // (or not at all, when the draw leaves the order alone): the pairs a clone never produces.
        out.push(Op::Clone { src: 0, dst: 1 });
        let nsites = rng.range(1, 2) as usize;
        let sites: Vec<u16> = (0..nsites).map(|_| rng.below(g::INSERT_SITES.len() as u64) as u16).collect();
        let m = rng.range(2, 5) as usize;
        let specs: Vec<(u16, u64)> = (0..m).map(|_| (sites[rng.usize_below(nsites)], rng.next_u64())).collect();
        let mut order: Vec<usize> = (0..m).collect();
        if rng.chance(3, 4) {
            for i in 0..m {
                let j = i + rng.usize_below(m - i);
                order.swap(i, j);
            }
        }
        for (site, seed) in &specs {
            out.push(Op::Insert { slot: 0, site: *site, seed: *seed });
        }
        for i in &order {
            out.push(Op::Insert { slot: 1, site: specs[*i].0, seed: specs[*i].1 });
        }
        if rng.chance(3, 4) {
            // The same detour (add a component, take it away again) for one entity of each world.
            let c = rng.below(g::NC as u64) as u8;
            let v = rng.next_u64();
            for slot in 0..2u8 {
                let n = rng.range(1, 2);
                for _ in 0..n {
                    out.push(Op::Entry { slot, pick: Pick { kind: 0, k: rng.below(m as u64) as u32 }, steps: vec![(true, c, v), (false, c, 0)] });
                }
            }
        }
        out.push(Op::EqCheck { a: 0, b: 1 });
        prefix = out.len();
    }
    while out.len() < prefix + cfg.len as usize {
        let c = rng.weighted(&cfg.weights);
        gen_op(&mut rng, cfg, c, &mut out);
    }
    if cfg.profile == "C16" {
        // Divergence and re-convergence between a world and its clone.
        let mut tail = Vec::new();
        tail.push(Op::Clone { src: 0, dst: 1 });
        tail.push(Op::EqCheck { a: 0, b: 1 });
        match rng.below(4) {
            0 => tail.push(Op::ResGetMut { slot: 1, which: rng.below(4) as u8, salt: rng.next_u64() }),
            1 => tail.push(Op::Remove { slot: 1, pick: pick_live(&mut rng) }),
            2 => tail.push(Op::Insert { slot: 1, site: rng.below(g::INSERT_SITES.len() as u64) as u16, seed: rng.next_u64() }),
            _ => tail.push(Op::Query { slot: 1, q: rng.below(g::QUERIES.len() as u64) as u16, mode: 0, split: 0, salt: Some(rng.next_u64()) }),
        }
        tail.push(Op::EqCheck { a: 0, b: 1 });
        out.extend(tail);
    }
    out
}

/// Short prefix building a small world with multi-column archetypes (for the enumeration tiers).
pub fn gen_small_world(rng: &mut Rng, slot: u8, max_ops: u64) -> Vec<Op> {
    let mut out = Vec::new();
    let n = rng.range(2, max_ops);
    // Half of the worlds are built in phases (fill, remove, refill) so that slots are reused:
    // generations differ between rows and the free list is often non-empty.
    let phased = rng.chance(1, 2);
    for i in 0..n {
        let phase = if phased { (i * 3 / n.max(1)) as u64 } else { 3 };
        let roll = match phase {
            0 => rng.below(5),          // fill: insert / extend
            1 => 5 + rng.below(1) * 4,  // remove
            2 => *rng.pick(&[0u64, 1, 3, 6, 7, 5]),
            _ => rng.below(10),
        };
        match roll {
            0..=2 => out.push(Op::Insert { slot, site: rng.below(g::INSERT_SITES.len() as u64) as u16, seed: rng.next_u64() }),
            3..=4 => out.push(Op::Extend {
                slot,
                how: *rng.pick(&[0u8, 0, 1, 2]),
                site: rng.below(g::EXTEND_SITES.len() as u64) as u16,
                n: rng.range(0, 4) as u16,
                extra: *rng.pick(&[0u16, 1]),
                seed: rng.next_u64(),
            }),
            5 => out.push(Op::Remove { slot, pick: pick_live(rng) }),
            6..=7 => out.push(Op::Entry { slot, pick: pick_live(rng), steps: entry_steps(rng) }),
            8 => out.push(Op::Extend { slot, how: 0, site: rng.below(g::EXTEND_SITES.len() as u64) as u16, n: rng.range(2, 5) as u16, extra: 0, seed: rng.next_u64() }),
            _ => {
                if rng.chance(1, 3) {
                    out.push(Op::Shrink { slot })
                } else {
                    out.push(Op::Remove { slot, pick: pick_live(rng) })
                }
            }
        }
    }
    out
}

/// Continuation on a world after a fault: robust operations that do not depend on the model.
pub fn gen_continuation(rng: &mut Rng, slot: u8, n: u64) -> Vec<Op> {
    let mut out = Vec::new();
    for _ in 0..n {
        match rng.below(9) {
            0 => out.push(Op::Insert { slot, site: rng.below(g::INSERT_SITES.len() as u64) as u16, seed: rng.next_u64() }),
            1 => out.push(Op::Extend { slot, how: 0, site: rng.below(g::EXTEND_SITES.len() as u64) as u16, n: rng.range(0, 3) as u16, extra: 0, seed: rng.next_u64() }),
            2 => out.push(Op::Remove { slot, pick: pick_live(rng) }),
            3 => out.push(Op::Entry { slot, pick: pick_live(rng), steps: entry_steps(rng) }),
            4 => out.push(Op::Query { slot, q: rng.below(g::QUERIES.len() as u64) as u16, mode: 0, split: 0, salt: Some(rng.next_u64()) }),
            5 => out.push(Op::Shrink { slot }),
            6 => out.push(Op::RoundTrip { src: slot, dst: slot, enc: rng.below(crate::medium::NENC as u64) as u8, in_place: false }),
            7 => out.push(Op::Clear { slot }),
            _ => out.push(Op::Remove { slot, pick: pick_dead(rng) }),
        }
    }
    out
}
