//! Resource and component types of the long-resource-list simulator.

use std::sync::atomic::{AtomicI64, Ordering};

pub static LIVE: AtomicI64 = AtomicI64::new(0);
pub static BAD: AtomicI64 = AtomicI64::new(0);
pub const PAYLOAD_MASK: u64 = (1 << 56) - 1;

macro_rules! tagged {
    ($name:ident, $bias:expr) => {
        /// A 56-bit payload tagged with the type's index in the low byte.
        pub struct $name<const N: usize>(u64);
        impl<const N: usize> $name<N> {
            pub fn new(payload: u64) -> Self {
                LIVE.fetch_add(1, Ordering::Relaxed);
                $name(((payload & PAYLOAD_MASK) << 8) | (N as u64 + $bias))
            }
            pub fn payload(&self) -> u64 {
                self.0 >> 8
            }
            pub fn ok(&self) -> bool {
                (self.0 & 0xFF) == N as u64 + $bias
            }
            pub fn set(&mut self, payload: u64) {
                self.0 = ((payload & PAYLOAD_MASK) << 8) | (N as u64 + $bias);
            }
        }
        impl<const N: usize> Drop for $name<N> {
            fn drop(&mut self) {
                LIVE.fetch_sub(1, Ordering::Relaxed);
                if !self.ok() {
                    BAD.fetch_add(1, Ordering::Relaxed);
                }
                self.0 = 0xDEAD_0000_0000_00FF;
            }
        }
        impl<const N: usize> Clone for $name<N> {
            fn clone(&self) -> Self {
                $name::new(self.payload())
            }
        }
        impl<const N: usize> PartialEq for $name<N> {
            fn eq(&self, other: &Self) -> bool {
                self.0 == other.0
            }
        }
        impl<const N: usize> core::fmt::Debug for $name<N> {
            fn fmt(&self, f: &mut core::fmt::Formatter<'_>) -> core::fmt::Result {
                write!(f, "{}<{N}>({:#x})", stringify!($name), self.payload())
            }
        }
        impl<const N: usize> serde::Serialize for $name<N> {
            fn serialize<S: serde::Serializer>(&self, s: S) -> Result<S::Ok, S::Error> {
                s.serialize_u64(self.payload())
            }
        }
        impl<'de, const N: usize> serde::Deserialize<'de> for $name<N> {
            fn deserialize<D: serde::Deserializer<'de>>(d: D) -> Result<Self, D::Error> {
                let v = <u64 as serde::Deserialize>::deserialize(d)?;
                Ok($name::new(v))
            }
        }
    };
}

tagged!(Q, 0x40);
tagged!(C, 0x10);

pub fn write_val(old: u64, salt: u64, which: u8) -> u64 {
    simcore::rng::mix(&[old, salt, which as u64, 0x52]) & PAYLOAD_MASK
}

/// Observation of resource views: (resource index, intact, payload before any write).
pub trait Obs {
    fn obs(self, out: &mut Vec<(u8, bool, u64)>, salt: Option<u64>);
}

impl<'a, const N: usize> Obs for &'a Q<N> {
    fn obs(self, out: &mut Vec<(u8, bool, u64)>, _salt: Option<u64>) {
        out.push((N as u8, self.ok(), self.payload()));
    }
}

impl<'a, const N: usize> Obs for &'a mut Q<N> {
    fn obs(self, out: &mut Vec<(u8, bool, u64)>, salt: Option<u64>) {
        let v = self.payload();
        out.push((N as u8, self.ok(), v));
        if let Some(s) = salt {
            self.set(write_val(v, s, N as u8));
        }
    }
}

impl Obs for brood::query::view::Null {
    fn obs(self, _out: &mut Vec<(u8, bool, u64)>, _salt: Option<u64>) {}
}

impl<H: Obs, T: Obs> Obs for (H, T) {
    fn obs(self, out: &mut Vec<(u8, bool, u64)>, salt: Option<u64>) {
        self.0.obs(out, salt);
        self.1.obs(out, salt);
    }
}
