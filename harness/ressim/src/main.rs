//! E1r: a world with a long resource list (16 resources, each its own type) and a two-component
//! registry. Same protocol as `worldsim` (run / emit / replay). What it is for: everything that
//! depends on the length of the resource list or on a resource's position in it (type-indexed
//! lookup, canonical views and reshaping, the resource tuple in serialization), which the
//! four-resource worlds of `worldsim` cannot reach.

#![allow(clippy::all)]

mod gen_res;
mod res;

use brood::{entity, entities};
use gen_res as g;
use res::*;
use serde::{Deserialize, Serialize};
use serde_assert::{Deserializer, Serializer, Tokens};
use simcore::arena;
use simcore::rng::{mix, Fnv, Rng};
use std::collections::BTreeMap;
use std::io::Write;
use std::panic::{catch_unwind, AssertUnwindSafe};
use std::sync::atomic::Ordering;

#[global_allocator]
static GLOBAL: arena::SimAlloc = arena::SimAlloc;

const ENGINE: &str = "ressim";

#[derive(Clone, Debug, Serialize, Deserialize, PartialEq)]
#[serde(tag = "op")]
pub enum Op {
    Insert { both: bool, seed: u64 },
    Extend { n: u16, seed: u64 },
    Remove { k: u32 },
    Clear,
    GetMut { which: u8, salt: u64 },
    View { site: u16, via: u8, salt: Option<u64> },
    /// enc: 0 tokens human-readable, 1 tokens compact, 2 serde_json text, 3 serde_json through Value.
    RoundTrip { enc: u8 },
    Clone,
    CloneFrom { seed: u64 },
    Shrink,
}

impl Op {
    fn name(&self) -> &'static str {
        match self {
            Op::Insert { .. } => "Insert",
            Op::Extend { .. } => "Extend",
            Op::Remove { .. } => "Remove",
            Op::Clear => "Clear",
            Op::GetMut { .. } => "GetMut",
            Op::View { .. } => "View",
            Op::RoundTrip { .. } => "RoundTrip",
            Op::Clone => "Clone",
            Op::CloneFrom { .. } => "CloneFrom",
            Op::Shrink => "Shrink",
        }
    }
}

#[derive(Clone, Debug, Serialize, Deserialize, PartialEq)]
pub struct Viol {
    pub property: String,
    pub oracle: String,
    pub text: String,
    pub op: u32,
}

fn viol(p: &str, o: &str, t: String) -> Viol {
    Viol { property: p.into(), oracle: o.into(), text: t, op: 0 }
}

#[derive(Clone, Debug, Serialize, Deserialize)]
pub struct Replay {
    pub engine: String,
    pub profile: String,
    pub seed: u64,
    pub index: u64,
    pub run_seed: u64,
    pub ops: Vec<Op>,
    #[serde(default)]
    pub expect: Option<Viol>,
    #[serde(default)]
    pub log_hash: Option<String>,
}

#[derive(Clone, Debug, Default, Serialize)]
pub struct RunOut {
    pub index: u64,
    pub run_seed: u64,
    pub nops: usize,
    pub ops_executed: u32,
    pub log_hash: String,
    pub violation: Option<Viol>,
    pub probes: BTreeMap<String, u64>,
    pub faults: BTreeMap<String, u64>,
    pub states: Vec<u64>,
    pub callbacks: [u64; 8],
    pub allocs: u64,
    pub op_hist: BTreeMap<String, u64>,
    pub history_hash: String,
}

fn sut<T>(f: impl FnOnce() -> T) -> Result<T, String> {
    let prev = arena::set_tag(arena::TAG_SUT);
    let r = catch_unwind(AssertUnwindSafe(f));
    arena::set_tag(prev);
    r.map_err(|p| {
        drop(p);
        simcore::take_panic().unwrap_or_else(|| "<panic>".to_string())
    })
}

fn panicked(what: &str) -> impl Fn(String) -> Viol + '_ {
    move |e| viol("C05", "unexpected-panic", format!("{what}: {e}"))
}

struct Sim {
    world: Option<g::Wd>,
    res: [u64; g::NR],
    ents: BTreeMap<(usize, u64), (u64, Option<u64>)>,
    opix: u32,
    log: Fnv,
    probes: BTreeMap<&'static str, u64>,
    op_hist: BTreeMap<&'static str, u64>,
}

impl Sim {
    fn hit(&mut self, p: &'static str) {
        *self.probes.entry(p).or_insert(0) += 1;
    }

    fn insert_into(w: &mut g::Wd, both: bool, seed: u64) -> Result<((usize, u64), (u64, Option<u64>)), Viol> {
        let (a, b) = (mix(&[seed, 1]) & PAYLOAD_MASK, mix(&[seed, 2]) & PAYLOAD_MASK);
        let id = sut(|| if both { w.insert(brood::entity!(C::<0>::new(a), C::<1>::new(b))) } else { w.insert(brood::entity!(C::<0>::new(a))) })
            .map_err(panicked("World::insert"))?;
        Ok((id.verif_parts(), (a, if both { Some(b) } else { None })))
    }

    fn check_views(&mut self, site: usize, out: &[(u8, bool, u64)], salt: Option<u64>, what: &str) -> Result<(), Viol> {
        let views = g::VIEWS[site];
        if out.len() != views.len() {
            return Err(viol("C15", "resource-view-count", format!("{what}: {} views requested, {} observed", views.len(), out.len())));
        }
        for ((k, r), (got_r, intact, v)) in views.iter().zip(out.iter()) {
            if got_r != r || !*intact || *v != self.res[*r as usize] {
                return Err(viol(
                    "C15",
                    "resource-view-wrong",
                    format!("{what} site {site} {views:?}: the view of resource Q<{r}> returned Q<{got_r}> (intact: {intact}) with value {v:#x}, the model has {:#x}", self.res[*r as usize]),
                ));
            }
            if *k == 1 {
                if let Some(s) = salt {
                    self.res[*r as usize] = write_val(*v, s, *r);
                }
            }
        }
        Ok(())
    }

    fn apply(&mut self, op: &Op) -> Result<(), Viol> {
        match op {
            Op::Insert { both, seed } => {
                let w = self.world.as_mut().unwrap();
                let (id, rec) = Self::insert_into(w, *both, *seed)?;
                if self.ents.insert(id, rec).is_some() {
                    return Err(viol("C02", "identifier-not-fresh", format!("identifier {id:?} is already live")));
                }
            }
            Op::Extend { n, seed } => {
                let a = mix(&[*seed, 1]) & PAYLOAD_MASK;
                let n = *n as usize;
                let w = self.world.as_mut().unwrap();
                let ids = sut(|| w.extend(entities!((C::<0>::new(a)); n))).map_err(panicked("World::extend"))?;
                if ids.len() != n {
                    return Err(viol("C01", "extend-count", format!("extend of {n} rows returned {} identifiers", ids.len())));
                }
                for id in ids {
                    self.ents.insert(id.verif_parts(), (a, None));
                }
            }
            Op::Remove { k } => {
                if self.ents.is_empty() {
                    return Ok(());
                }
                let id = *self.ents.keys().nth(*k as usize % self.ents.len()).unwrap();
                let w = self.world.as_mut().unwrap();
                sut(|| w.remove(entity::Identifier::verif_from_parts(id.0, id.1))).map_err(panicked("World::remove"))?;
                self.ents.remove(&id);
            }
            Op::Clear => {
                let w = self.world.as_mut().unwrap();
                sut(|| w.clear()).map_err(panicked("World::clear"))?;
                self.ents.clear();
            }
            Op::GetMut { which, salt } => {
                let which = *which as usize % g::NR;
                let mut out = Vec::new();
                let w = self.world.as_mut().unwrap();
                sut(|| g::get_mut(w, which, *salt, &mut out)).map_err(panicked("World::get_mut"))?;
                let (r, intact, v) = out[0];
                if r as usize != which || !intact || v != self.res[which] {
                    return Err(viol("C15", "resource-get-mut-wrong", format!("get_mut::<Q<{which}>> returned Q<{r}> (intact: {intact}) with value {v:#x}, the model has {:#x}", self.res[which])));
                }
                self.res[which] = write_val(v, *salt, which as u8);
                self.hit("get_mut_resource");
            }
            Op::View { site, via, salt } => {
                let site = *site as usize % g::VIEWS.len();
                let mut out = Vec::new();
                let w = self.world.as_mut().unwrap();
                let n = sut(|| g::view(w, site, *via % 2, *salt, &mut out)).map_err(panicked("World::view_resources / query"))?;
                if *via % 2 == 1 && n != self.ents.len() {
                    return Err(viol("C03", "query-results", format!("a query with resource views iterated {n} entities, the model holds {}", self.ents.len())));
                }
                self.check_views(site, &out, *salt, if *via % 2 == 0 { "view_resources" } else { "query resource views" })?;
                self.hit(if *via % 2 == 0 { "view_resources" } else { "query_resource_views" });
                if g::VIEWS[site].len() == g::NR {
                    self.hit("all_sixteen_resources_viewed");
                }
            }
            Op::RoundTrip { enc } => {
                let w = self.world.as_ref().unwrap();
                let enc = *enc % 4;
                let new: g::Wd = if enc < 2 {
                    let ser = Serializer::builder().is_human_readable(enc == 0).build();
                    let tokens = match sut(|| w.serialize(&ser)) {
                        Ok(Ok(t)) => t,
                        Ok(Err(e)) => return Err(viol("C06", "serialize-failed", format!("{e}"))),
                        Err(e) => return Err(panicked("World::serialize")(e)),
                    };
                    let mut de = Deserializer::builder().tokens(Tokens(tokens.0.clone())).is_human_readable(enc == 0).build();
                    match sut(|| g::Wd::deserialize(&mut de)) {
                        Ok(Ok(n)) => n,
                        Ok(Err(e)) => return Err(viol("C06", "roundtrip-deserialize-failed", format!("deserializing the library's own output (encoding {enc}) failed: {e}"))),
                        Err(e) => return Err(panicked("World::deserialize")(e)),
                    }
                } else {
                    let bytes = match sut(|| if enc == 2 { serde_json::to_vec(w) } else { serde_json::to_value(w).and_then(|v| serde_json::to_vec(&v)) }) {
                        Ok(Ok(b)) => b,
                        Ok(Err(e)) => return Err(viol("C06", "serialize-failed", format!("{e}"))),
                        Err(e) => return Err(panicked("World::serialize")(e)),
                    };
                    match sut(|| serde_json::from_slice::<g::Wd>(&bytes)) {
                        Ok(Ok(n)) => n,
                        Ok(Err(e)) => return Err(viol("C06", "roundtrip-deserialize-failed", format!("deserializing the library's own output (encoding {enc}) failed: {e}"))),
                        Err(e) => return Err(panicked("World::deserialize")(e)),
                    }
                };
                let eq = sut(|| (new == *w, *w == new)).map_err(panicked("World::eq"))?;
                let old = self.world.replace(new);
                sut(move || drop(old)).map_err(panicked("drop(World)"))?;
                if eq != (true, true) {
                    return Err(viol("C06", "roundtrip-not-equal", format!("round trip (encoding {enc}): replica == original is {}, original == replica is {}", eq.0, eq.1)));
                }
                self.hit(["roundtrip_tokens_readable", "roundtrip_tokens_compact", "roundtrip_json", "roundtrip_json_value_sorted_keys"][enc as usize]);
            }
            Op::Clone => {
                let w = self.world.as_ref().unwrap();
                let new = sut(|| w.clone()).map_err(panicked("World::clone"))?;
                let eq = sut(|| (new == *w, *w == new)).map_err(panicked("World::eq"))?;
                let old = self.world.replace(new);
                sut(move || drop(old)).map_err(panicked("drop(World)"))?;
                if eq != (true, true) {
                    return Err(viol("C10", "clone-not-equal", format!("clone == original is {}, original == clone is {}", eq.0, eq.1)));
                }
                self.hit("clone");
            }
            Op::CloneFrom { seed } => {
                let s = *seed;
                let mut other = sut(|| g::new_world(&|r| mix(&[s, r as u64, 0xCF]) & PAYLOAD_MASK)).map_err(panicked("World::with_resources"))?;
                Self::insert_into(&mut other, s & 1 == 0, s)?;
                let w = self.world.as_ref().unwrap();
                sut(|| other.clone_from(w)).map_err(panicked("World::clone_from"))?;
                let old = self.world.replace(other);
                sut(move || drop(old)).map_err(panicked("drop(World)"))?;
                self.hit("clone_from");
            }
            Op::Shrink => {
                let w = self.world.as_mut().unwrap();
                sut(|| w.shrink_to_fit()).map_err(panicked("World::shrink_to_fit"))?;
            }
        }
        Ok(())
    }

    fn check(&mut self) -> Result<(), Viol> {
        if let Some(e) = arena::error() {
            return Err(viol("C05", "arena-audit", e));
        }
        if BAD.load(Ordering::Relaxed) != 0 {
            return Err(viol("C05", "payload-integrity", "a value was dropped through another type".into()));
        }
        // C15: every resource, by type, unchanged and present once.
        let w = self.world.as_ref().unwrap();
        let mut out = Vec::new();
        sut(|| g::read_all(w, &mut out)).map_err(panicked("World::get"))?;
        for (i, (r, intact, v)) in out.iter().enumerate() {
            if *r as usize != i || !*intact || *v != self.res[i] {
                return Err(viol("C15", "resource-changed", format!("get::<Q<{i}>> returned Q<{r}> (intact: {intact}) with value {v:#x}, the model has {:#x}", self.res[i])));
            }
        }
        if w.len() != self.ents.len() {
            return Err(viol("C01", "len", format!("len() = {}, the model holds {} entities", w.len(), self.ents.len())));
        }
        for id in self.ents.keys() {
            if !w.contains(entity::Identifier::verif_from_parts(id.0, id.1)) {
                return Err(viol("C02", "live-identifier-unresolved", format!("contains({id:?}) is false for a live identifier")));
            }
        }
        let expect: i64 = g::NR as i64 + self.ents.values().map(|r| 1 + r.1.is_some() as i64).sum::<i64>();
        let live = LIVE.load(Ordering::Relaxed);
        if live != expect {
            return Err(viol("C04", "ledger-balance", format!("{live} values are alive, the model holds {expect}")));
        }
        for v in self.res.iter() {
            self.log.u64(*v);
        }
        Ok(())
    }

    fn step(&mut self, op: &Op) -> Result<(), Viol> {
        self.opix += 1;
        self.log.u64(self.opix as u64);
        self.log.bytes(op.name().as_bytes());
        *self.op_hist.entry(op.name()).or_insert(0) += 1;
        let ix = self.opix;
        self.apply(op).and_then(|()| self.check()).map_err(|mut v| {
            v.op = ix;
            v
        })
    }
}

fn hash_ops(ops: &[Op]) -> u64 {
    let s = serde_json::to_string(ops).unwrap();
    let mut h = Fnv::default();
    h.bytes(s.as_bytes());
    h.0
}

fn run_ops(ops: &[Op], run_seed: u64, verbose: bool) -> RunOut {
    arena::begin_run();
    let _ = simcore::take_panic();
    LIVE.store(0, Ordering::Relaxed);
    BAD.store(0, Ordering::Relaxed);
    let mut out = RunOut::default();
    {
        let mut violation = None;
        let mut s = Sim { world: None, res: [0; g::NR], ents: BTreeMap::new(), opix: 0, log: Fnv::default(), probes: BTreeMap::new(), op_hist: BTreeMap::new() };
        for r in 0..g::NR {
            s.res[r] = mix(&[run_seed, r as u64, 0xE5]) & PAYLOAD_MASK;
        }
        let init = s.res;
        match sut(|| g::new_world(&|r| init[r as usize])) {
            Ok(w) => s.world = Some(w),
            Err(e) => violation = Some(viol("C05", "unexpected-panic", format!("World::with_resources: {e}"))),
        }
        if violation.is_none() {
            if let Err(v) = s.check() {
                violation = Some(v);
            }
        }
        if violation.is_none() {
            for (i, op) in ops.iter().enumerate() {
                if verbose {
                    eprintln!("op {} {:?}", i + 1, op);
                }
                if let Err(v) = s.step(op) {
                    violation = Some(v);
                    break;
                }
            }
        }
        let executed = s.opix;
        let w = s.world.take();
        if let Err(e) = sut(move || drop(w)) {
            if violation.is_none() {
                violation = Some(viol("C05", "unexpected-panic", format!("drop(World): {e}")));
            }
        }
        if violation.is_none() {
            if let Some(e) = arena::error() {
                violation = Some(viol("C05", "arena-audit", e));
            } else if LIVE.load(Ordering::Relaxed) != 0 {
                violation = Some(viol("C04", "ledger-leak", format!("{} values are still alive after the world was dropped", LIVE.load(Ordering::Relaxed))));
            } else if arena::audits_enabled() && arena::stats().live_sut != 0 {
                let st = arena::stats();
                violation = Some(viol("C05", "arena-leak", format!("{} allocations ({} bytes) obtained by the library are still live after the world was dropped", st.live_sut, st.live_sut_bytes)));
            } else if let Some(p) = simcore::take_panic() {
                violation = Some(viol("C05", "stray-panic", p));
            }
        }
        if let Some(v) = violation.as_mut() {
            if v.op == 0 {
                v.op = executed;
            }
        }
        out.nops = ops.len();
        out.ops_executed = executed;
        out.log_hash = format!("{:016x}", s.log.0);
        out.violation = violation;
        out.probes = s.probes.iter().map(|(k, v)| (k.to_string(), *v)).collect();
        out.op_hist = s.op_hist.iter().map(|(k, v)| (k.to_string(), *v)).collect();
        out.allocs = arena::stats().allocs;
    }
    let _ = simcore::take_panic();
    arena::end_run();
    let copy = RunOut {
        index: 0,
        run_seed,
        nops: out.nops,
        ops_executed: out.ops_executed,
        log_hash: out.log_hash.as_str().to_owned(),
        violation: out.violation.as_ref().map(|v| Viol { property: v.property.as_str().to_owned(), oracle: v.oracle.as_str().to_owned(), text: v.text.as_str().to_owned(), op: v.op }),
        probes: out.probes.iter().map(|(k, v)| (k.as_str().to_owned(), *v)).collect(),
        faults: BTreeMap::new(),
        states: Vec::new(),
        callbacks: [0; 8],
        allocs: out.allocs,
        op_hist: out.op_hist.iter().map(|(k, v)| (k.as_str().to_owned(), *v)).collect(),
        history_hash: format!("{:016x}", hash_ops(ops)),
    };
    drop(out);
    copy
}

fn gen_history(run_seed: u64, thorough: bool) -> Vec<Op> {
    let mut rng = Rng::new(run_seed, 2);
    let len = rng.geometric(3, if thorough { 80 } else { 40 }, 12) as usize;
    let mut out = Vec::new();
    // insert extend remove clear get_mut view roundtrip clone clone_from shrink
    let w: Vec<u32> = vec![6, 2, 3, 1, 8, 12, 6, 2, 3, 1];
    while out.len() < len {
        match rng.weighted(&w) {
            0 => out.push(Op::Insert { both: rng.chance(1, 2), seed: rng.next_u64() }),
            1 => out.push(Op::Extend { n: *rng.pick(&[0u16, 1, 3, 9]), seed: rng.next_u64() }),
            2 => out.push(Op::Remove { k: rng.below(1 << 20) as u32 }),
            3 => out.push(Op::Clear),
            4 => out.push(Op::GetMut { which: rng.below(g::NR as u64) as u8, salt: rng.next_u64() }),
            5 => out.push(Op::View { site: rng.below(g::VIEWS.len() as u64) as u16, via: rng.below(2) as u8, salt: if rng.chance(2, 3) { Some(rng.next_u64()) } else { None } }),
            6 => out.push(Op::RoundTrip { enc: rng.below(4) as u8 }),
            7 => out.push(Op::Clone),
            8 => out.push(Op::CloneFrom { seed: rng.next_u64() }),
            _ => out.push(Op::Shrink),
        }
    }
    out
}

fn run_seed_for(seed: u64, profile: &str, index: u64) -> u64 {
    let mut h = Fnv::default();
    h.bytes(profile.as_bytes());
    mix(&[seed, 0xE116, h.0, index])
}

fn emit(out: &mut impl Write, tag: &str, v: &impl Serialize) {
    writeln!(out, "{tag} {}", serde_json::to_string(v).unwrap()).unwrap();
    out.flush().unwrap();
}

fn main() {
    let argv: Vec<String> = std::env::args().collect();
    if argv.len() < 2 {
        eprintln!("usage: ressim run|emit|replay ...");
        std::process::exit(2);
    }
    let (mut profile, mut seed, mut from, mut count, mut index) = ("C15".to_string(), 1u64, 0u64, 1u64, 0u64);
    let (mut thorough, mut verbose, mut file) = (false, false, None);
    let mut i = 2;
    while i < argv.len() {
        let val = |i: &mut usize| -> String {
            *i += 1;
            argv.get(*i).cloned().unwrap_or_default()
        };
        match argv[i].as_str() {
            "--profile" => profile = val(&mut i),
            "--seed" => seed = val(&mut i).parse().unwrap_or(1),
            "--from" => from = val(&mut i).parse().unwrap_or(0),
            "--count" => count = val(&mut i).parse().unwrap_or(1),
            "--index" => index = val(&mut i).parse().unwrap_or(0),
            "--thorough" => thorough = true,
            "--verbose" => verbose = true,
            s if !s.starts_with("--") => file = Some(s.to_string()),
            _ => {}
        }
        i += 1;
    }
    simcore::install_panic_hook(verbose);
    let stdout = std::io::stdout();
    let mut out = stdout.lock();
    writeln!(out, "HELLO {ENGINE} resources={} arena={}", g::NR, arena::audits_enabled()).unwrap();
    out.flush().unwrap();
    let _ = catch_unwind(|| std::panic::panic_any(simcore::fault::Injected { kind: simcore::fault::Kind::Clone, k: 0 }));
    match argv[1].as_str() {
        "run" => {
            let t0 = std::time::Instant::now();
            let mut done = 0u64;
            for idx in from..from + count {
                let rs = run_seed_for(seed, &profile, idx);
                writeln!(out, "START {idx} {rs}").unwrap();
                out.flush().unwrap();
                let ops = gen_history(rs, thorough);
                let mut r = run_ops(&ops, rs, verbose);
                r.index = idx;
                emit(&mut out, "RUN", &r);
                if r.violation.is_some() {
                    let rep = Replay { engine: ENGINE.into(), profile: profile.clone(), seed, index: idx, run_seed: rs, ops, expect: r.violation.clone(), log_hash: Some(r.log_hash.clone()) };
                    emit(&mut out, "REPLAY", &rep);
                }
                done += 1;
            }
            writeln!(out, "DONE {done} {}", t0.elapsed().as_millis()).unwrap();
        }
        "emit" => {
            let rs = run_seed_for(seed, &profile, index);
            let rep = Replay { engine: ENGINE.into(), profile: profile.clone(), seed, index, run_seed: rs, ops: gen_history(rs, thorough), expect: None, log_hash: None };
            emit(&mut out, "REPLAY", &rep);
        }
        "replay" => {
            let Some(f) = file else {
                eprintln!("replay needs a file");
                std::process::exit(2)
            };
            let text = std::fs::read_to_string(&f).unwrap_or_else(|e| {
                eprintln!("cannot read {f}: {e}");
                std::process::exit(2)
            });
            let rep: Replay = serde_json::from_str(&text).unwrap_or_else(|e| {
                eprintln!("cannot parse {f}: {e}");
                std::process::exit(2)
            });
            let r = run_ops(&rep.ops, rep.run_seed, verbose);
            emit(&mut out, "RUN", &r);
            match &r.violation {
                Some(v) => {
                    writeln!(out, "VIOLATION property={} replay={} oracle={} op={} :: {}", v.property, f, v.oracle, v.op, v.text).unwrap();
                    std::process::exit(1);
                }
                None => writeln!(out, "NO-VIOLATION").unwrap(),
            }
        }
        other => {
            eprintln!("unknown command {other}");
            std::process::exit(2);
        }
    }
}
