//! E1w: the world simulator on a wide registry (72 components = nine identifier bytes, more than
//! one 64-bit word). Same protocol as `worldsim` (run / emit / replay; START, RUN, REPLAY, DONE
//! lines), a smaller operation set, a map model, and the deterministic auditing arena.
//!
//! What it is for: everything in the library that walks the archetype identifier (bit iteration,
//! column selection, filters, lookup by identifier bytes, serialization of identifiers) on
//! registries whose identifier does not fit a byte, a `u16` or a `u64`, which the ten-component
//! registries of `worldsim` cannot reach.

#![allow(clippy::all)]

mod gen_wide;
mod wide;

use brood::entity;
use gen_wide as g;
use serde::{Deserialize, Serialize};
use serde_assert::{Deserializer, Serializer, Tokens};
use simcore::arena;
use simcore::rng::{mix, Fnv, Rng};
use std::collections::{BTreeMap, BTreeSet};
use std::io::Write;
use std::panic::{catch_unwind, AssertUnwindSafe};
use std::sync::atomic::Ordering;
use wide::*;

#[global_allocator]
static GLOBAL: arena::SimAlloc = arena::SimAlloc;

const ENGINE: &str = "widesim";

#[derive(Clone, Debug, Serialize, Deserialize, PartialEq)]
#[serde(tag = "op")]
pub enum Op {
    Insert { site: u16, seed: u64 },
    Extend { site: u16, n: u16, seed: u64 },
    /// k-th live (modulo) / k-th dead identifier.
    Remove { k: u32, dead: bool },
    Clear,
    EntryAdd { k: u32, ci: u8, val: u64 },
    EntryRemove { k: u32, ci: u8 },
    Query { q: u16, fold: bool, salt: Option<u64> },
    EntryQuery { k: u32, q: u16, salt: Option<u64> },
    RoundTrip { readable: bool },
    Clone,
    /// Build another world from `n` insertions, then `other.clone_from(&world)`; `other` replaces the world.
    CloneFrom { n: u8, seed: u64 },
    Shrink,
}

impl Op {
    fn name(&self) -> &'static str {
        match self {
            Op::Insert { .. } => "Insert",
            Op::Extend { .. } => "Extend",
            Op::Remove { .. } => "Remove",
            Op::Clear => "Clear",
            Op::EntryAdd { .. } => "EntryAdd",
            Op::EntryRemove { .. } => "EntryRemove",
            Op::Query { .. } => "Query",
            Op::EntryQuery { .. } => "EntryQuery",
            Op::RoundTrip { .. } => "RoundTrip",
            Op::Clone => "Clone",
            Op::CloneFrom { .. } => "CloneFrom",
            Op::Shrink => "Shrink",
        }
    }
}

#[derive(Clone, Debug, Serialize, Deserialize, PartialEq)]
pub struct Viol {
    pub property: String,
    pub oracle: String,
    pub text: String,
    pub op: u32,
}

fn viol(p: &str, o: &str, t: String) -> Viol {
    Viol { property: p.into(), oracle: o.into(), text: t, op: 0 }
}

#[derive(Clone, Debug, Serialize, Deserialize)]
pub struct Replay {
    pub engine: String,
    pub profile: String,
    pub seed: u64,
    pub index: u64,
    pub run_seed: u64,
    pub ops: Vec<Op>,
    #[serde(default)]
    pub expect: Option<Viol>,
    #[serde(default)]
    pub log_hash: Option<String>,
}

#[derive(Clone, Debug, Default, Serialize)]
pub struct RunOut {
    pub index: u64,
    pub run_seed: u64,
    pub nops: usize,
    pub ops_executed: u32,
    pub log_hash: String,
    pub violation: Option<Viol>,
    pub probes: BTreeMap<String, u64>,
    pub faults: BTreeMap<String, u64>,
    pub states: Vec<u64>,
    pub callbacks: [u64; 8],
    pub allocs: u64,
    pub op_hist: BTreeMap<String, u64>,
    pub history_hash: String,
}

fn sut<T>(f: impl FnOnce() -> T) -> Result<T, String> {
    let prev = arena::set_tag(arena::TAG_SUT);
    let r = catch_unwind(AssertUnwindSafe(f));
    arena::set_tag(prev);
    r.map_err(|p| {
        drop(p);
        simcore::take_panic().unwrap_or_else(|| "<panic>".to_string())
    })
}

fn mk_id(id: Id) -> entity::Identifier {
    entity::Identifier::verif_from_parts(id.0, id.1)
}

type Model = BTreeMap<Id, BTreeMap<u8, u64>>;

struct Sim {
    world: Option<g::Wd>,
    model: Model,
    issued: BTreeSet<Id>,
    dead: Vec<Id>,
    opix: u32,
    log: Fnv,
    probes: BTreeMap<&'static str, u64>,
    states: BTreeSet<u64>,
    op_hist: BTreeMap<&'static str, u64>,
}

impl Sim {
    fn hit(&mut self, p: &'static str) {
        *self.probes.entry(p).or_insert(0) += 1;
    }

    fn live_pick(&self, k: u32) -> Option<Id> {
        if self.model.is_empty() {
            None
        } else {
            self.model.keys().nth(k as usize % self.model.len()).copied()
        }
    }

    fn vals(seed: u64) -> impl Fn(u8) -> u64 {
        move |c| mix(&[seed, c as u64]) & PAYLOAD_MASK
    }

    fn issue(&mut self, ids: &[Id], rec: BTreeMap<u8, u64>) -> Result<(), Viol> {
        for id in ids {
            if !self.issued.insert(*id) {
                return Err(viol("C02", "identifier-not-fresh", format!("identifier {id:?} was returned again: it was already issued in this world's lifetime")));
            }
            self.model.insert(*id, rec.clone());
        }
        Ok(())
    }

    fn apply(&mut self, op: &Op) -> Result<(), Viol> {
        match op {
            Op::Insert { site, seed } => {
                let site = *site as usize % g::SITES.len();
                let val = Self::vals(*seed);
                let w = self.world.as_mut().unwrap();
                let id = sut(|| g::insert(w, site, &val)).map_err(|e| viol("C05", "unexpected-panic", format!("World::insert: {e}")))?.verif_parts();
                let rec: BTreeMap<u8, u64> = g::SITES[site].iter().map(|c| (*c, val(*c))).collect();
                if g::SITES[site].iter().any(|c| *c >= 64) {
                    self.hit("shape_beyond_component_64");
                }
                self.issue(&[id], rec)?;
                self.hit("insert");
            }
            Op::Extend { site, n, seed } => {
                let site = *site as usize % g::SITES.len();
                if g::SITES[site].len() > 2 {
                    return Ok(());
                }
                let val = Self::vals(*seed);
                let n = *n as usize;
                let w = self.world.as_mut().unwrap();
                let ids = sut(|| g::extend_cloned(w, site, n, &val)).map_err(|e| viol("C05", "unexpected-panic", format!("World::extend: {e}")))?;
                let want = if g::SITES[site].is_empty() { 0 } else { n };
                if ids.len() != want {
                    return Err(viol("C01", "extend-count", format!("extend of {want} rows returned {} identifiers", ids.len())));
                }
                let ids: Vec<Id> = ids.iter().map(|i| i.verif_parts()).collect();
                let rec: BTreeMap<u8, u64> = g::SITES[site].iter().map(|c| (*c, val(*c))).collect();
                self.issue(&ids, rec)?;
                self.hit("extend");
            }
            Op::Remove { k, dead } => {
                let id = if *dead {
                    if self.dead.is_empty() {
                        return Ok(());
                    }
                    self.dead[*k as usize % self.dead.len()]
                } else {
                    match self.live_pick(*k) {
                        Some(i) => i,
                        None => return Ok(()),
                    }
                };
                let w = self.world.as_mut().unwrap();
                sut(|| w.remove(mk_id(id))).map_err(|e| viol("C05", "unexpected-panic", format!("World::remove: {e}")))?;
                if self.model.remove(&id).is_some() {
                    self.dead.push(id);
                    self.hit("remove_live");
                } else {
                    self.hit("remove_stale_identifier");
                }
            }
            Op::Clear => {
                let w = self.world.as_mut().unwrap();
                sut(|| w.clear()).map_err(|e| viol("C05", "unexpected-panic", format!("World::clear: {e}")))?;
                let ids: Vec<Id> = self.model.keys().copied().collect();
                self.dead.extend(ids);
                self.model.clear();
                self.hit("clear");
            }
            Op::EntryAdd { k, ci, val } => {
                let Some(id) = self.live_pick(*k) else { return Ok(()) };
                let ci = *ci as usize % g::ENTRY_COMPS.len();
                let v = *val & PAYLOAD_MASK;
                let w = self.world.as_mut().unwrap();
                let r = sut(|| g::entry_add(w, mk_id(id), ci, v)).map_err(|e| viol("C05", "unexpected-panic", format!("Entry::add: {e}")))?;
                if r.is_none() {
                    return Err(viol("C02", "live-identifier-unresolved", format!("World::entry({id:?}) is None for a live identifier")));
                }
                let had = self.model.get_mut(&id).unwrap().insert(g::ENTRY_COMPS[ci], v).is_some();
                self.hit(if had { "entry_add_overwrite" } else { "entry_add_shape_change" });
            }
            Op::EntryRemove { k, ci } => {
                let Some(id) = self.live_pick(*k) else { return Ok(()) };
                let ci = *ci as usize % g::ENTRY_COMPS.len();
                let w = self.world.as_mut().unwrap();
                let r = sut(|| g::entry_remove(w, mk_id(id), ci)).map_err(|e| viol("C05", "unexpected-panic", format!("Entry::remove: {e}")))?;
                if r.is_none() {
                    return Err(viol("C02", "live-identifier-unresolved", format!("World::entry({id:?}) is None for a live identifier")));
                }
                if self.model.get_mut(&id).unwrap().remove(&g::ENTRY_COMPS[ci]).is_some() {
                    self.hit("entry_remove_present");
                }
            }
            Op::Query { q, fold, salt } => {
                let q = *q as usize % g::QUERIES.len();
                let d = &g::QUERIES[q];
                let mut out = Vec::new();
                let w = self.world.as_mut().unwrap();
                sut(|| g::query(w, q, *fold, *salt, &mut out)).map_err(|e| viol("C05", "unexpected-panic", format!("World::query #{q}: {e}")))?;
                for r in &out {
                    if let Some(e) = &r.err {
                        return Err(viol("C05", "payload-integrity", format!("World::query #{q}: {e}")));
                    }
                }
                let mut want: Vec<Item> = self.model.iter().filter(|(_, s)| d.matches(s)).map(|(id, s)| d.expected(*id, s)).collect();
                let mut have = out;
                want.sort();
                have.sort();
                if want != have {
                    let missing: Vec<_> = want.iter().filter(|x| !have.contains(x)).take(2).collect();
                    let extra: Vec<_> = have.iter().filter(|x| !want.contains(x)).take(2).collect();
                    return Err(viol(
                        "C03",
                        "query-results",
                        format!("World::query #{q} views {:?}: {} results, model expects {}; missing {missing:?}; unexpected {extra:?}", d.views, have.len(), want.len()),
                    ));
                }
                if let Some(s) = salt {
                    for (_, set) in self.model.iter_mut() {
                        if d.matches(set) {
                            d.apply_writes(set, *s);
                        }
                    }
                }
                if !want.is_empty() {
                    self.hit("query_nonempty");
                }
                self.hit("query");
            }
            Op::EntryQuery { k, q, salt } => {
                let Some(id) = self.live_pick(*k) else { return Ok(()) };
                let q = *q as usize % g::QUERIES.len();
                let d = &g::QUERIES[q];
                let w = self.world.as_mut().unwrap();
                let r = sut(|| g::entry_query(w, mk_id(id), q, *salt)).map_err(|e| viol("C05", "unexpected-panic", format!("Entry::query #{q}: {e}")))?;
                let Some(r) = r else {
                    return Err(viol("C02", "live-identifier-unresolved", format!("World::entry({id:?}) is None for a live identifier")));
                };
                let set = self.model.get_mut(&id).unwrap();
                match (d.matches(set), r) {
                    (false, None) => {}
                    (true, Some(item)) => {
                        if let Some(e) = &item.err {
                            return Err(viol("C05", "payload-integrity", format!("Entry::query #{q}: {e}")));
                        }
                        let want = d.expected(id, set);
                        if item != want {
                            return Err(viol("C03", "single-query-results", format!("World::entry({id:?}).query #{q}: got {item:?}, model expects {want:?}")));
                        }
                        if let Some(s) = salt {
                            d.apply_writes(set, *s);
                        }
                    }
                    (m, r) => {
                        return Err(viol("C03", "single-query-results", format!("World::entry({id:?}).query #{q}: the entity {} but the query returned {}", if m { "matches" } else { "does not match" }, if r.is_some() { "a result" } else { "None" })));
                    }
                }
                self.hit("entry_query");
            }
            Op::RoundTrip { readable } => {
                let w = self.world.as_ref().unwrap();
                let ser = Serializer::builder().is_human_readable(*readable).build();
                let tokens = match sut(|| w.serialize(&ser)) {
                    Ok(Ok(t)) => t,
                    Ok(Err(e)) => return Err(viol("C06", "serialize-failed", format!("{e}"))),
                    Err(e) => return Err(viol("C05", "unexpected-panic", format!("World::serialize: {e}"))),
                };
                let mut de = Deserializer::builder().tokens(Tokens(tokens.0.clone())).is_human_readable(*readable).build();
                let new = match sut(|| g::Wd::deserialize(&mut de)) {
                    Ok(Ok(n)) => n,
                    Ok(Err(e)) => return Err(viol("C06", "roundtrip-deserialize-failed", format!("deserializing the library's own output (human-readable: {readable}) failed: {e}"))),
                    Err(e) => return Err(viol("C05", "unexpected-panic", format!("World::deserialize: {e}"))),
                };
                let eq = sut(|| (new == *w, *w == new)).map_err(|e| viol("C05", "unexpected-panic", format!("World::eq: {e}")))?;
                let old = self.world.replace(new);
                sut(move || drop(old)).map_err(|e| viol("C05", "unexpected-panic", format!("drop(World): {e}")))?;
                if eq != (true, true) {
                    return Err(viol("C06", "roundtrip-not-equal", format!("round trip (human-readable: {readable}): replica == original is {}, original == replica is {}", eq.0, eq.1)));
                }
                self.hit(if *readable { "roundtrip_tokens_readable" } else { "roundtrip_tokens_compact" });
            }
            Op::Clone => {
                let w = self.world.as_ref().unwrap();
                let new = sut(|| w.clone()).map_err(|e| viol("C05", "unexpected-panic", format!("World::clone: {e}")))?;
                let eq = sut(|| (new == *w, *w == new)).map_err(|e| viol("C05", "unexpected-panic", format!("World::eq: {e}")))?;
                let old = self.world.replace(new);
                sut(move || drop(old)).map_err(|e| viol("C05", "unexpected-panic", format!("drop(World): {e}")))?;
                if eq != (true, true) {
                    return Err(viol("C10", "clone-not-equal", format!("clone == original is {}, original == clone is {}", eq.0, eq.1)));
                }
                self.hit("clone");
            }
            Op::CloneFrom { n, seed } => {
                let mut other = sut(g::Wd::new).map_err(|e| viol("C05", "unexpected-panic", format!("World::new: {e}")))?;
                let mut rng = Rng::new(*seed, 7);
                for _ in 0..(*n % 5) {
                    let site = rng.usize_below(g::SITES.len());
                    let val = Self::vals(rng.next_u64());
                    sut(|| g::insert(&mut other, site, &val)).map_err(|e| viol("C05", "unexpected-panic", format!("World::insert: {e}")))?;
                }
                let w = self.world.as_ref().unwrap();
                sut(|| other.clone_from(w)).map_err(|e| viol("C05", "unexpected-panic", format!("World::clone_from: {e}")))?;
                let old = self.world.replace(other);
                sut(move || drop(old)).map_err(|e| viol("C05", "unexpected-panic", format!("drop(World): {e}")))?;
                self.hit("clone_from");
            }
            Op::Shrink => {
                let w = self.world.as_mut().unwrap();
                sut(|| w.shrink_to_fit()).map_err(|e| viol("C05", "unexpected-panic", format!("World::shrink_to_fit: {e}")))?;
                self.hit("shrink_to_fit");
            }
        }
        Ok(())
    }

    fn check(&mut self) -> Result<(), Viol> {
        if let Some(e) = arena::error() {
            return Err(viol("C05", "arena-audit", e));
        }
        if BAD.load(Ordering::Relaxed) != 0 {
            return Err(viol("C05", "payload-integrity", "a value was dropped through a column of another component type".into()));
        }
        let mut out = Vec::new();
        let w = self.world.as_mut().unwrap();
        sut(|| g::extract(w, &mut out)).map_err(|e| viol("C05", "unexpected-panic", format!("World::query (extraction): {e}")))?;
        let mut got: Model = BTreeMap::new();
        let mut seen: BTreeMap<u8, BTreeSet<Id>> = BTreeMap::new();
        for item in &out {
            if let Some(e) = &item.err {
                return Err(viol("C05", "payload-integrity", format!("extraction: {e}")));
            }
            let Some(id) = item.id else { return Err(viol("C01", "harness", "no identifier in extraction".into())) };
            self.log.u64(id.0 as u64);
            self.log.u64(id.1);
            // One probe query per instantiated component: every probe has to yield every entity once.
            let (c, present, v) = item.comps[0];
            let probe = seen.entry(c).or_insert_with(BTreeSet::new);
            if !probe.insert(id) {
                return Err(viol("C01", "model-extraction", format!("identifier {id:?} yielded twice by a query")));
            }
            let set = got.entry(id).or_default();
            if present {
                set.insert(c, v);
            }
        }
        for (c, ids) in &seen {
            if ids.len() != got.len() {
                return Err(viol("C03", "query-results", format!("the probe query for component {c} yielded {} entities, another probe {}", ids.len(), got.len())));
            }
        }
        if got != self.model {
            let mut detail = String::new();
            for (id, want) in self.model.iter() {
                match got.get(id) {
                    None => {
                        detail = format!("entity {id:?} is missing from the world");
                        break;
                    }
                    Some(have) if have != want => {
                        detail = format!("entity {id:?}: world has {have:x?}, model has {want:x?}");
                        break;
                    }
                    _ => {}
                }
            }
            if detail.is_empty() {
                if let Some(id) = got.keys().find(|i| !self.model.contains_key(i)) {
                    detail = format!("world yields entity {id:?} ({:x?}) which the model does not hold", got[id]);
                }
            }
            return Err(viol("C01", "model-extraction", format!("{detail} (world {} entities, model {})", got.len(), self.model.len())));
        }
        let w = self.world.as_mut().unwrap();
        if w.len() != self.model.len() || w.is_empty() != self.model.is_empty() {
            return Err(viol("C01", "len", format!("len() = {}, model holds {} entities", w.len(), self.model.len())));
        }
        for id in self.model.keys() {
            if !w.contains(mk_id(*id)) {
                return Err(viol("C02", "live-identifier-unresolved", format!("contains({id:?}) is false for a live identifier")));
            }
        }
        for id in self.dead.iter().rev().take(24) {
            if w.contains(mk_id(*id)) || w.entry(mk_id(*id)).is_some() {
                return Err(viol("C02", "dead-identifier-resolves", format!("{id:?} was removed or cleared earlier and resolves again")));
            }
        }
        let expect_live: i64 = self.model.values().map(|s| s.len() as i64).sum();
        let live = LIVE.load(Ordering::Relaxed);
        if live != expect_live {
            return Err(viol("C04", "ledger-balance", format!("{live} component values are alive, the model holds {expect_live}")));
        }
        let mut h = Fnv::default();
        let mut shapes: BTreeMap<u128, u32> = BTreeMap::new();
        for s in self.model.values() {
            let mut m = 0u128;
            for c in s.keys() {
                m |= 1u128 << *c;
            }
            *shapes.entry(m).or_insert(0) += 1;
        }
        for (m, n) in shapes {
            h.u64(m as u64);
            h.u64((m >> 64) as u64);
            h.u64(n.min(3) as u64);
        }
        if self.states.len() < 64 {
            self.states.insert(h.0);
        }
        Ok(())
    }

    fn step(&mut self, op: &Op) -> Result<(), Viol> {
        self.opix += 1;
        self.log.u64(self.opix as u64);
        self.log.bytes(op.name().as_bytes());
        *self.op_hist.entry(op.name()).or_insert(0) += 1;
        let ix = self.opix;
        self.apply(op).and_then(|()| self.check()).map_err(|mut v| {
            v.op = ix;
            v
        })
    }
}

fn hash_ops(ops: &[Op]) -> u64 {
    let s = serde_json::to_string(ops).unwrap();
    let mut h = Fnv::default();
    h.bytes(s.as_bytes());
    h.0
}

fn run_ops(ops: &[Op], run_seed: u64, verbose: bool) -> RunOut {
    arena::begin_run();
    let _ = simcore::take_panic();
    LIVE.store(0, Ordering::Relaxed);
    BAD.store(0, Ordering::Relaxed);
    let mut out = RunOut::default();
    {
        let mut violation = None;
        let mut s = Sim { world: None, model: BTreeMap::new(), issued: BTreeSet::new(), dead: Vec::new(), opix: 0, log: Fnv::default(), probes: BTreeMap::new(), states: BTreeSet::new(), op_hist: BTreeMap::new() };
        match sut(g::Wd::new) {
            Ok(w) => s.world = Some(w),
            Err(e) => violation = Some(viol("C05", "unexpected-panic", format!("World::new: {e}"))),
        }
        if violation.is_none() {
            for (i, op) in ops.iter().enumerate() {
                if verbose {
                    eprintln!("op {} {:?}", i + 1, op);
                }
                if let Err(v) = s.step(op) {
                    violation = Some(v);
                    break;
                }
            }
        }
        let executed = s.opix;
        let w = s.world.take();
        if let Err(e) = sut(move || drop(w)) {
            if violation.is_none() {
                violation = Some(viol("C05", "unexpected-panic", format!("drop(World): {e}")));
            }
        }
        if violation.is_none() {
            if let Some(e) = arena::error() {
                violation = Some(viol("C05", "arena-audit", e));
            } else if LIVE.load(Ordering::Relaxed) != 0 {
                violation = Some(viol("C04", "ledger-leak", format!("{} component values are still alive after the world was dropped", LIVE.load(Ordering::Relaxed))));
            } else if BAD.load(Ordering::Relaxed) != 0 {
                violation = Some(viol("C05", "payload-integrity", "a value was dropped through a column of another component type".into()));
            } else if arena::audits_enabled() && arena::stats().live_sut != 0 {
                let st = arena::stats();
                violation = Some(viol("C05", "arena-leak", format!("{} allocations ({} bytes) obtained by the library are still live after the world was dropped", st.live_sut, st.live_sut_bytes)));
            } else if let Some(p) = simcore::take_panic() {
                violation = Some(viol("C05", "stray-panic", p));
            }
        }
        if let Some(v) = violation.as_mut() {
            if v.op == 0 {
                v.op = executed;
            }
        }
        out.nops = ops.len();
        out.ops_executed = executed;
        out.log_hash = format!("{:016x}", s.log.0);
        out.violation = violation;
        out.probes = s.probes.iter().map(|(k, v)| (k.to_string(), *v)).collect();
        out.states = s.states.iter().copied().collect();
        out.op_hist = s.op_hist.iter().map(|(k, v)| (k.to_string(), *v)).collect();
        out.allocs = arena::stats().allocs;
    }
    let _ = simcore::take_panic();
    arena::end_run();
    let copy = RunOut {
        index: 0,
        run_seed,
        nops: out.nops,
        ops_executed: out.ops_executed,
        log_hash: out.log_hash.as_str().to_owned(),
        violation: out.violation.as_ref().map(|v| Viol { property: v.property.as_str().to_owned(), oracle: v.oracle.as_str().to_owned(), text: v.text.as_str().to_owned(), op: v.op }),
        probes: out.probes.iter().map(|(k, v)| (k.as_str().to_owned(), *v)).collect(),
        faults: BTreeMap::new(),
        states: out.states.iter().copied().collect(),
        callbacks: [0; 8],
        allocs: out.allocs,
        op_hist: out.op_hist.iter().map(|(k, v)| (k.as_str().to_owned(), *v)).collect(),
        history_hash: format!("{:016x}", hash_ops(ops)),
    };
    drop(out);
    copy
}

fn gen_history(run_seed: u64, thorough: bool) -> Vec<Op> {
    let mut rng = Rng::new(run_seed, 2);
    let len = rng.geometric(3, if thorough { 120 } else { 60 }, 14) as usize;
    let mut out = Vec::new();
    // weights: insert extend remove remove_dead clear entry_add entry_remove query query_write entry_query roundtrip clone clone_from shrink
    let mut w: Vec<u32> = vec![16, 5, 9, 2, 1, 12, 8, 10, 6, 6, 4, 2, 2, 2];
    for x in w.iter_mut().skip(1) {
        if rng.chance(1, 5) {
            *x = 0;
        }
    }
    while out.len() < len {
        match rng.weighted(&w) {
            0 => out.push(Op::Insert { site: rng.below(g::SITES.len() as u64) as u16, seed: rng.next_u64() }),
            1 => out.push(Op::Extend { site: rng.below(g::SITES.len() as u64) as u16, n: *rng.pick(&[0u16, 1, 2, 3, 5, 17]), seed: rng.next_u64() }),
            2 => {
                for _ in 0..if rng.chance(1, 4) { rng.range(2, 5) } else { 1 } {
                    out.push(Op::Remove { k: rng.below(1 << 20) as u32, dead: false });
                }
            }
            3 => out.push(Op::Remove { k: rng.below(1 << 20) as u32, dead: true }),
            4 => out.push(Op::Clear),
            5 => out.push(Op::EntryAdd { k: rng.below(1 << 20) as u32, ci: rng.below(g::ENTRY_COMPS.len() as u64) as u8, val: rng.next_u64() }),
            6 => out.push(Op::EntryRemove { k: rng.below(1 << 20) as u32, ci: rng.below(g::ENTRY_COMPS.len() as u64) as u8 }),
            7 => out.push(Op::Query { q: rng.below(g::QUERIES.len() as u64) as u16, fold: rng.chance(1, 2), salt: None }),
            8 => out.push(Op::Query { q: rng.below(g::QUERIES.len() as u64) as u16, fold: rng.chance(1, 2), salt: Some(rng.next_u64()) }),
            9 => out.push(Op::EntryQuery { k: rng.below(1 << 20) as u32, q: rng.below(g::QUERIES.len() as u64) as u16, salt: if rng.chance(1, 2) { Some(rng.next_u64()) } else { None } }),
            10 => out.push(Op::RoundTrip { readable: rng.chance(1, 2) }),
            11 => out.push(Op::Clone),
            12 => out.push(Op::CloneFrom { n: rng.below(5) as u8, seed: rng.next_u64() }),
            _ => out.push(Op::Shrink),
        }
    }
    out
}

fn run_seed_for(seed: u64, profile: &str, index: u64) -> u64 {
    let mut h = Fnv::default();
    h.bytes(profile.as_bytes());
    mix(&[seed, 0xE172, h.0, index])
}

fn emit(out: &mut impl Write, tag: &str, v: &impl Serialize) {
    writeln!(out, "{tag} {}", serde_json::to_string(v).unwrap()).unwrap();
    out.flush().unwrap();
}

fn main() {
    let argv: Vec<String> = std::env::args().collect();
    if argv.len() < 2 {
        eprintln!("usage: widesim run|emit|replay ...");
        std::process::exit(2);
    }
    let (mut profile, mut seed, mut from, mut count, mut index) = ("C01".to_string(), 1u64, 0u64, 1u64, 0u64);
    let (mut thorough, mut verbose, mut file) = (false, false, None);
    let mut i = 2;
    while i < argv.len() {
        let val = |i: &mut usize| -> String {
            *i += 1;
            argv.get(*i).cloned().unwrap_or_default()
        };
        match argv[i].as_str() {
            "--profile" => profile = val(&mut i),
            "--seed" => seed = val(&mut i).parse().unwrap_or(1),
            "--from" => from = val(&mut i).parse().unwrap_or(0),
            "--count" => count = val(&mut i).parse().unwrap_or(1),
            "--index" => index = val(&mut i).parse().unwrap_or(0),
            "--thorough" => thorough = true,
            "--verbose" => verbose = true,
            s if !s.starts_with("--") => file = Some(s.to_string()),
            _ => {}
        }
        i += 1;
    }
    simcore::install_panic_hook(verbose);
    let stdout = std::io::stdout();
    let mut out = stdout.lock();
    writeln!(out, "HELLO {ENGINE} registry=r{} arena={}", g::NC, arena::audits_enabled()).unwrap();
    out.flush().unwrap();
    let _ = catch_unwind(|| std::panic::panic_any(simcore::fault::Injected { kind: simcore::fault::Kind::Clone, k: 0 }));
    match argv[1].as_str() {
        "run" => {
            let t0 = std::time::Instant::now();
            let mut done = 0u64;
            for idx in from..from + count {
                let rs = run_seed_for(seed, &profile, idx);
                writeln!(out, "START {idx} {rs}").unwrap();
                out.flush().unwrap();
                let ops = gen_history(rs, thorough);
                let mut r = run_ops(&ops, rs, verbose);
                r.index = idx;
                emit(&mut out, "RUN", &r);
                if r.violation.is_some() {
                    let rep = Replay { engine: ENGINE.into(), profile: profile.clone(), seed, index: idx, run_seed: rs, ops, expect: r.violation.clone(), log_hash: Some(r.log_hash.clone()) };
                    emit(&mut out, "REPLAY", &rep);
                }
                done += 1;
            }
            writeln!(out, "DONE {done} {}", t0.elapsed().as_millis()).unwrap();
        }
        "emit" => {
            let rs = run_seed_for(seed, &profile, index);
            let rep = Replay { engine: ENGINE.into(), profile: profile.clone(), seed, index, run_seed: rs, ops: gen_history(rs, thorough), expect: None, log_hash: None };
            emit(&mut out, "REPLAY", &rep);
        }
        "replay" => {
            let Some(f) = file else {
                eprintln!("replay needs a file");
                std::process::exit(2)
            };
            let text = std::fs::read_to_string(&f).unwrap_or_else(|e| {
                eprintln!("cannot read {f}: {e}");
                std::process::exit(2)
            });
            let rep: Replay = serde_json::from_str(&text).unwrap_or_else(|e| {
                eprintln!("cannot parse {f}: {e}");
                std::process::exit(2)
            });
            let r = run_ops(&rep.ops, rep.run_seed, verbose);
            emit(&mut out, "RUN", &r);
            match &r.violation {
                Some(v) => {
                    writeln!(out, "VIOLATION property={} replay={} oracle={} op={} :: {}", v.property, f, v.oracle, v.op, v.text).unwrap();
                    std::process::exit(1);
                }
                None => writeln!(out, "NO-VIOLATION").unwrap(),
            }
        }
        other => {
            eprintln!("unknown command {other}");
            std::process::exit(2);
        }
    }
}
