//! Component type and observation traits of the wide-registry simulator.

use brood::entity;
use std::collections::BTreeMap;
use std::sync::atomic::{AtomicI64, Ordering};

/// Values of `W<_>` alive in the process, and values found with a foreign tag when dropped.
pub static LIVE: AtomicI64 = AtomicI64::new(0);
pub static BAD: AtomicI64 = AtomicI64::new(0);

pub const PAYLOAD_MASK: u64 = (1 << 56) - 1;

/// The N-th component of the registry: a 56-bit payload tagged with N in the low byte, so that a
/// value read through the wrong column, from freed or from uninitialised memory shows.
pub struct W<const N: usize>(u64);

impl<const N: usize> W<N> {
    pub fn new(payload: u64) -> Self {
        LIVE.fetch_add(1, Ordering::Relaxed);
        W(((payload & PAYLOAD_MASK) << 8) | N as u64)
    }
    pub fn payload(&self) -> u64 {
        self.0 >> 8
    }
    pub fn ok(&self) -> bool {
        (self.0 & 0xFF) as usize == N
    }
    pub fn set(&mut self, payload: u64) {
        self.0 = ((payload & PAYLOAD_MASK) << 8) | N as u64;
    }
}

impl<const N: usize> Drop for W<N> {
    fn drop(&mut self) {
        LIVE.fetch_sub(1, Ordering::Relaxed);
        if !self.ok() {
            BAD.fetch_add(1, Ordering::Relaxed);
        }
        self.0 = 0xDEAD_0000_0000_00FF;
    }
}

impl<const N: usize> Clone for W<N> {
    fn clone(&self) -> Self {
        W::new(self.payload())
    }
}

impl<const N: usize> PartialEq for W<N> {
    fn eq(&self, other: &Self) -> bool {
        self.0 == other.0
    }
}

impl<const N: usize> core::fmt::Debug for W<N> {
    fn fmt(&self, f: &mut core::fmt::Formatter<'_>) -> core::fmt::Result {
        write!(f, "W<{N}>({:#x})", self.payload())
    }
}

impl<const N: usize> serde::Serialize for W<N> {
    fn serialize<S: serde::Serializer>(&self, s: S) -> Result<S::Ok, S::Error> {
        s.serialize_u64(self.payload())
    }
}

impl<'de, const N: usize> serde::Deserialize<'de> for W<N> {
    fn deserialize<D: serde::Deserializer<'de>>(d: D) -> Result<Self, D::Error> {
        let v = <u64 as serde::Deserialize>::deserialize(d)?;
        Ok(W::new(v))
    }
}

pub type Id = (usize, u64);

/// One query result as observed: identifier and, per view, (component, present, payload before any write).
#[derive(Clone, Debug, Default, PartialEq, Eq, PartialOrd, Ord)]
pub struct Item {
    pub id: Option<Id>,
    pub comps: Vec<(u8, bool, u64)>,
    pub err: Option<String>,
}

pub fn write_val(old: u64, salt: u64, comp: u8) -> u64 {
    simcore::rng::mix(&[old, salt, comp as u64, 0x57]) & PAYLOAD_MASK
}

pub trait Obs {
    fn obs(self, r: &mut Item, salt: Option<u64>);
}

fn see<const N: usize>(w: &W<N>, r: &mut Item) -> u64 {
    if !w.ok() && r.err.is_none() {
        r.err = Some(format!("a value viewed as W<{N}> carries the bytes {:#018x}: another component's value, freed or uninitialised memory", w.0));
    }
    w.payload()
}

impl<'a, const N: usize> Obs for &'a W<N> {
    fn obs(self, r: &mut Item, _salt: Option<u64>) {
        let v = see(self, r);
        r.comps.push((N as u8, true, v));
    }
}

impl<'a, const N: usize> Obs for &'a mut W<N> {
    fn obs(self, r: &mut Item, salt: Option<u64>) {
        let v = see(self, r);
        r.comps.push((N as u8, true, v));
        if let Some(s) = salt {
            self.set(write_val(v, s, N as u8));
        }
    }
}

impl<'a, const N: usize> Obs for Option<&'a W<N>> {
    fn obs(self, r: &mut Item, salt: Option<u64>) {
        match self {
            Some(w) => w.obs(r, salt),
            None => r.comps.push((N as u8, false, 0)),
        }
    }
}

impl<'a, const N: usize> Obs for Option<&'a mut W<N>> {
    fn obs(self, r: &mut Item, salt: Option<u64>) {
        match self {
            Some(w) => w.obs(r, salt),
            None => r.comps.push((N as u8, false, 0)),
        }
    }
}

impl Obs for entity::Identifier {
    fn obs(self, r: &mut Item, _salt: Option<u64>) {
        r.id = Some(self.verif_parts());
    }
}

impl Obs for brood::query::view::Null {
    fn obs(self, _r: &mut Item, _salt: Option<u64>) {}
}

impl<H: Obs, T: Obs> Obs for (H, T) {
    fn obs(self, r: &mut Item, salt: Option<u64>) {
        self.0.obs(r, salt);
        self.1.obs(r, salt);
    }
}

pub const K_REF: u8 = 0;
pub const K_MUT: u8 = 1;
pub const K_OPT: u8 = 2;
pub const K_OPTMUT: u8 = 3;

pub enum F {
    None,
    Has(u8),
    Not(&'static F),
    And(&'static F, &'static F),
    Or(&'static F, &'static F),
}

impl F {
    pub fn eval(&self, set: &BTreeMap<u8, u64>) -> bool {
        match self {
            F::None => true,
            F::Has(c) => set.contains_key(c),
            F::Not(f) => !f.eval(set),
            F::And(a, b) => a.eval(set) && b.eval(set),
            F::Or(a, b) => a.eval(set) || b.eval(set),
        }
    }
}

pub struct QDesc {
    pub views: &'static [(u8, u8)],
    pub filter: F,
}

impl QDesc {
    pub fn matches(&self, set: &BTreeMap<u8, u64>) -> bool {
        self.filter.eval(set) && self.views.iter().all(|(k, c)| *k == K_OPT || *k == K_OPTMUT || set.contains_key(c))
    }
    pub fn expected(&self, id: Id, set: &BTreeMap<u8, u64>) -> Item {
        Item { id: Some(id), comps: self.views.iter().map(|(_, c)| (*c, set.contains_key(c), set.get(c).copied().unwrap_or(0))).collect(), err: None }
    }
    pub fn apply_writes(&self, set: &mut BTreeMap<u8, u64>, salt: u64) {
        for (k, c) in self.views {
            if *k == K_MUT || *k == K_OPTMUT {
                if let Some(v) = set.get_mut(c) {
                    *v = write_val(*v, salt, *c);
                }
            }
        }
    }
}
