//! Drop ledger: every individually identified value is created once and dropped once.

use crate::arena;
use std::sync::Mutex;

#[derive(Clone, Copy, Debug, PartialEq, Eq)]
pub enum Origin {
    New,
    Clone,
    De,
}

#[derive(Clone, Copy, Debug)]
struct Entry {
    type_ix: u8,
    live: bool,
    origin: Origin,
    born_op: u32,
    dropped_op: u32,
    /// false for values of a type without a destructor: they have an identity, but their end is unobservable.
    tracked: bool,
}

pub const NTYPES: usize = 32;

pub struct Ledger {
    entries: Vec<Entry>,
    live_count: u64,
    live_by_type: [i64; NTYPES],
    /// Counters for values that cannot carry a serial (zero-sized / one byte).
    pub anon_created: [u64; NTYPES],
    pub anon_dropped: [u64; NTYPES],
    errors: Vec<String>,
    error_count: u64,
    cur_op: u32,
    created_total: u64,
    dropped_total: u64,
}

static LEDGER: Mutex<Option<Ledger>> = Mutex::new(None);

fn with<T>(f: impl FnOnce(&mut Ledger) -> T) -> T {
    let _t = arena::tag_scope(arena::TAG_HARNESS);
    let mut g = match LEDGER.lock() {
        Ok(g) => g,
        Err(p) => p.into_inner(),
    };
    if g.is_none() {
        *g = Some(Ledger::new());
    }
    f(g.as_mut().unwrap())
}

impl Ledger {
    fn new() -> Self {
        Ledger {
            entries: Vec::new(),
            live_count: 0,
            live_by_type: [0; NTYPES],
            anon_created: [0; NTYPES],
            anon_dropped: [0; NTYPES],
            errors: Vec::new(),
            error_count: 0,
            cur_op: 0,
            created_total: 0,
            dropped_total: 0,
        }
    }
    fn err(&mut self, msg: String) {
        self.error_count += 1;
        if self.errors.len() < 4 {
            self.errors.push(msg);
        }
    }
}

/// Drop the ledger storage and start afresh (call at run start, and again at run end so nothing
/// from the arena survives).
pub fn reset() {
    let _t = arena::tag_scope(arena::TAG_HARNESS);
    let mut g = match LEDGER.lock() {
        Ok(g) => g,
        Err(p) => p.into_inner(),
    };
    *g = None;
}

pub fn set_op(op: u32) {
    with(|l| l.cur_op = op);
}

pub fn create(type_ix: u8, origin: Origin) -> u64 {
    with(|l| {
        let op = l.cur_op;
        l.entries.push(Entry { type_ix, live: true, origin, born_op: op, dropped_op: 0, tracked: true });
        l.live_count += 1;
        l.live_by_type[type_ix as usize] += 1;
        l.created_total += 1;
        l.entries.len() as u64
    })
}

/// A value of a type without a destructor: it gets an identity (so that sharing one value object
/// between two owners is visible) but does not take part in the live/dropped balance.
pub fn create_untracked(type_ix: u8, origin: Origin) -> u64 {
    with(|l| {
        let op = l.cur_op;
        l.entries.push(Entry { type_ix, live: true, origin, born_op: op, dropped_op: 0, tracked: false });
        l.entries.len() as u64
    })
}

pub fn dropped(serial: u64, type_ix: u8, type_name: &str) {
    with(|l| {
        l.dropped_total += 1;
        let n = l.entries.len() as u64;
        if serial == 0 || serial > n {
            let op = l.cur_op;
            l.err(format!(
                "drop of a value that was never created: type {type_name} serial {serial:#x} at op {op} (garbage or reinterpreted memory)"
            ));
            return;
        }
        let op = l.cur_op;
        let e = l.entries[(serial - 1) as usize];
        if e.type_ix != type_ix {
            l.err(format!(
                "value dropped as type {type_name} but serial {serial} was created as type index {} (op {op})",
                e.type_ix
            ));
            return;
        }
        if !e.live {
            l.err(format!(
                "double drop: {type_name} serial {serial} (origin {:?}, born at op {}) was dropped at op {} and again at op {op}",
                e.origin, e.born_op, e.dropped_op
            ));
            return;
        }
        let e = &mut l.entries[(serial - 1) as usize];
        e.live = false;
        e.dropped_op = op;
        l.live_count -= 1;
        l.live_by_type[type_ix as usize] -= 1;
    })
}

pub fn anon_create(type_ix: u8) {
    with(|l| {
        l.anon_created[type_ix as usize] += 1;
        l.created_total += 1;
    })
}

pub fn anon_drop(type_ix: u8, type_name: &str) {
    with(|l| {
        l.anon_dropped[type_ix as usize] += 1;
        l.dropped_total += 1;
        if l.anon_dropped[type_ix as usize] > l.anon_created[type_ix as usize] {
            let op = l.cur_op;
            let (c, d) = (l.anon_created[type_ix as usize], l.anon_dropped[type_ix as usize]);
            l.err(format!(
                "more drops than constructions of {type_name}: created {c}, dropped {d} (op {op})"
            ));
        }
    })
}

pub fn anon_live(type_ix: u8) -> i64 {
    with(|l| l.anon_created[type_ix as usize] as i64 - l.anon_dropped[type_ix as usize] as i64)
}

pub fn is_live(serial: u64, type_ix: u8) -> bool {
    with(|l| {
        serial >= 1
            && serial <= l.entries.len() as u64
            && l.entries[(serial - 1) as usize].live
            && l.entries[(serial - 1) as usize].type_ix == type_ix
    })
}

pub fn describe(serial: u64) -> String {
    with(|l| {
        if serial >= 1 && serial <= l.entries.len() as u64 {
            let e = l.entries[(serial - 1) as usize];
            format!(
                "serial {serial}: type index {} origin {:?} born op {} live {} dropped op {}",
                e.type_ix, e.origin, e.born_op, e.live, e.dropped_op
            )
        } else {
            format!("serial {serial}: unknown")
        }
    })
}

pub fn live_count() -> u64 {
    with(|l| l.live_count)
}

pub fn live_by_type(type_ix: u8) -> i64 {
    with(|l| l.live_by_type[type_ix as usize])
}

pub fn totals() -> (u64, u64) {
    with(|l| (l.created_total, l.dropped_total))
}

/// All live serials (for detailed leak reports).
pub fn live_serials() -> Vec<(u64, u8)> {
    with(|l| {
        l.entries
            .iter()
            .enumerate()
            .filter(|(_, e)| e.live && e.tracked)
            .map(|(i, e)| (i as u64 + 1, e.type_ix))
            .collect()
    })
}

pub fn first_error() -> Option<String> {
    with(|l| l.errors.first().cloned())
}

pub fn error_count() -> u64 {
    with(|l| l.error_count)
}
