//! Fault plan for user callbacks: "fail at the k-th callback of kind X inside this operation".

use std::sync::atomic::{AtomicBool, AtomicU64, AtomicU8, Ordering};

#[derive(Clone, Copy, Debug, PartialEq, Eq)]
#[repr(u8)]
pub enum Kind {
    Clone = 0,
    Drop = 1,
    Eq = 2,
    Debug = 3,
    Ser = 4,
    De = 5,
    System = 6,
    ParItem = 7,
}
pub const NKINDS: usize = 8;
pub const KIND_NAMES: [&str; NKINDS] = ["clone", "drop", "eq", "debug", "ser", "de", "system", "paritem"];

impl Kind {
    pub fn from_u8(v: u8) -> Kind {
        match v {
            0 => Kind::Clone,
            1 => Kind::Drop,
            2 => Kind::Eq,
            3 => Kind::Debug,
            4 => Kind::Ser,
            5 => Kind::De,
            6 => Kind::System,
            _ => Kind::ParItem,
        }
    }
    pub fn from_name(s: &str) -> Option<Kind> {
        KIND_NAMES.iter().position(|n| *n == s).map(|i| Kind::from_u8(i as u8))
    }
    pub fn name(self) -> &'static str {
        KIND_NAMES[self as usize]
    }
}

#[derive(Clone, Copy, Debug, PartialEq, Eq)]
pub enum Action {
    Proceed,
    /// Only returned for Ser / De callbacks armed in error mode.
    Fail,
}

static COUNTS: [AtomicU64; NKINDS] = [
    AtomicU64::new(0),
    AtomicU64::new(0),
    AtomicU64::new(0),
    AtomicU64::new(0),
    AtomicU64::new(0),
    AtomicU64::new(0),
    AtomicU64::new(0),
    AtomicU64::new(0),
];
static TOTALS: [AtomicU64; NKINDS] = [
    AtomicU64::new(0),
    AtomicU64::new(0),
    AtomicU64::new(0),
    AtomicU64::new(0),
    AtomicU64::new(0),
    AtomicU64::new(0),
    AtomicU64::new(0),
    AtomicU64::new(0),
];
const UNARMED: u8 = 0xFF;
static ARMED_KIND: AtomicU8 = AtomicU8::new(UNARMED);
static ARMED_K: AtomicU64 = AtomicU64::new(0);
static ARMED_ERR: AtomicBool = AtomicBool::new(false);
static FIRED: AtomicBool = AtomicBool::new(false);

/// Payload of an injected panic.
#[derive(Debug)]
pub struct Injected {
    pub kind: Kind,
    pub k: u64,
}

/// Reset the per-operation counters (call at the start of every operation).
pub fn begin_op() {
    for c in COUNTS.iter() {
        c.store(0, Ordering::Relaxed);
    }
}

pub fn reset_run() {
    begin_op();
    for c in TOTALS.iter() {
        c.store(0, Ordering::Relaxed);
    }
    disarm();
    FIRED.store(false, Ordering::Relaxed);
}

pub fn counts() -> [u64; NKINDS] {
    let mut out = [0; NKINDS];
    for (i, c) in COUNTS.iter().enumerate() {
        out[i] = c.load(Ordering::Relaxed);
    }
    out
}

pub fn totals() -> [u64; NKINDS] {
    let mut out = [0; NKINDS];
    for (i, c) in TOTALS.iter().enumerate() {
        out[i] = c.load(Ordering::Relaxed);
    }
    out
}

/// Arm: the k-th (1-based) callback of `kind` counted from the last `begin_op` fails.
pub fn arm(kind: Kind, k: u64, as_error: bool) {
    ARMED_K.store(k, Ordering::Relaxed);
    ARMED_ERR.store(as_error, Ordering::Relaxed);
    FIRED.store(false, Ordering::Relaxed);
    ARMED_KIND.store(kind as u8, Ordering::Relaxed);
}

pub fn disarm() {
    ARMED_KIND.store(UNARMED, Ordering::Relaxed);
}

pub fn fired() -> bool {
    FIRED.load(Ordering::Relaxed)
}

/// Called by every hooked user callback.
#[inline]
pub fn callback(kind: Kind) -> Action {
    let n = COUNTS[kind as usize].fetch_add(1, Ordering::Relaxed) + 1;
    TOTALS[kind as usize].fetch_add(1, Ordering::Relaxed);
    if ARMED_KIND.load(Ordering::Relaxed) == kind as u8 && ARMED_K.load(Ordering::Relaxed) == n {
        if kind == Kind::Drop && std::thread::panicking() {
            // A panic inside a destructor that runs during unwinding aborts the process by
            // language rule; that is not the library's doing, so never inject there.
            return Action::Proceed;
        }
        if FIRED.swap(true, Ordering::Relaxed) {
            return Action::Proceed;
        }
        ARMED_KIND.store(UNARMED, Ordering::Relaxed);
        if ARMED_ERR.load(Ordering::Relaxed) && (kind == Kind::Ser || kind == Kind::De) {
            return Action::Fail;
        }
        std::panic::panic_any(Injected { kind, k: n });
    }
    Action::Proceed
}
