//! Seeded PRNG streams. One run seed -> independent xoshiro256** streams.

#[inline]
pub fn splitmix64(state: &mut u64) -> u64 {
    *state = state.wrapping_add(0x9E37_79B9_7F4A_7C15);
    let mut z = *state;
    z = (z ^ (z >> 30)).wrapping_mul(0xBF58_476D_1CE4_E5B9);
    z = (z ^ (z >> 27)).wrapping_mul(0x94D0_49BB_1331_11EB);
    z ^ (z >> 31)
}

/// Mix several integers into one 64-bit value (used to derive run seeds).
pub fn mix(parts: &[u64]) -> u64 {
    let mut s = 0x243F_6A88_85A3_08D3u64;
    for p in parts {
        s ^= *p;
        splitmix64(&mut s);
        s = s.rotate_left(23) ^ p.wrapping_mul(0x9E37_79B9_7F4A_7C15);
    }
    let mut t = s;
    splitmix64(&mut t)
}

#[derive(Clone, Debug)]
pub struct Rng {
    s: [u64; 4],
}

impl Rng {
    pub fn new(seed: u64, stream: u64) -> Self {
        let mut sm = mix(&[seed, stream, 0x5151_5151]);
        let mut s = [0u64; 4];
        for x in s.iter_mut() {
            *x = splitmix64(&mut sm);
        }
        if s == [0; 4] {
            s[0] = 1;
        }
        Rng { s }
    }

    #[inline]
    pub fn next_u64(&mut self) -> u64 {
        let result = self.s[1].wrapping_mul(5).rotate_left(7).wrapping_mul(9);
        let t = self.s[1] << 17;
        self.s[2] ^= self.s[0];
        self.s[3] ^= self.s[1];
        self.s[1] ^= self.s[2];
        self.s[0] ^= self.s[3];
        self.s[2] ^= t;
        self.s[3] = self.s[3].rotate_left(45);
        result
    }

    /// Uniform in `0..n` (n > 0).
    #[inline]
    pub fn below(&mut self, n: u64) -> u64 {
        debug_assert!(n > 0);
        // Multiply-shift; bias is irrelevant here.
        ((self.next_u64() as u128 * n as u128) >> 64) as u64
    }

    #[inline]
    pub fn usize_below(&mut self, n: usize) -> usize {
        self.below(n as u64) as usize
    }

    /// Inclusive range.
    #[inline]
    pub fn range(&mut self, lo: u64, hi: u64) -> u64 {
        lo + self.below(hi - lo + 1)
    }

    /// True with probability num/den.
    #[inline]
    pub fn chance(&mut self, num: u64, den: u64) -> bool {
        self.below(den) < num
    }

    pub fn pick<'a, T>(&mut self, xs: &'a [T]) -> &'a T {
        &xs[self.usize_below(xs.len())]
    }

    /// Pick an index according to integer weights (sum > 0).
    pub fn weighted(&mut self, weights: &[u32]) -> usize {
        let total: u64 = weights.iter().map(|w| *w as u64).sum();
        debug_assert!(total > 0);
        let mut x = self.below(total);
        for (i, w) in weights.iter().enumerate() {
            if x < *w as u64 {
                return i;
            }
            x -= *w as u64;
        }
        weights.len() - 1
    }

    /// Geometric-ish length: small values dominate. Returns lo..=hi.
    pub fn geometric(&mut self, lo: u64, hi: u64, mean: u64) -> u64 {
        let mut v = lo;
        while v < hi && !self.chance(1, mean.max(1)) {
            v += 1;
        }
        v
    }

    pub fn shuffle<T>(&mut self, xs: &mut [T]) {
        for i in (1..xs.len()).rev() {
            let j = self.usize_below(i + 1);
            xs.swap(i, j);
        }
    }
}

/// Rolling FNV-1a hash for event logs.
#[derive(Clone, Copy, Debug)]
pub struct Fnv(pub u64);

impl Default for Fnv {
    fn default() -> Self {
        Fnv(0xcbf2_9ce4_8422_2325)
    }
}

impl Fnv {
    #[inline]
    pub fn u64(&mut self, v: u64) {
        for b in v.to_le_bytes() {
            self.0 ^= b as u64;
            self.0 = self.0.wrapping_mul(0x0000_0100_0000_01B3);
        }
    }
    #[inline]
    pub fn bytes(&mut self, bs: &[u8]) {
        for b in bs {
            self.0 ^= *b as u64;
            self.0 = self.0.wrapping_mul(0x0000_0100_0000_01B3);
        }
        self.u64(bs.len() as u64);
    }
}
