//! Deterministic arena allocator with auditing.
//!
//! While a run is active every allocation of the process is served from a region mapped at a
//! fixed virtual address, by a bump pointer plus LIFO size-class free lists that are reset at the
//! start of every run. Addresses are therefore a pure function of the run's allocation sequence,
//! which makes the iteration order of brood's address-hashed archetype table (and everything
//! downstream of it) repeat exactly in a fresh process.
//!
//! The allocator doubles as the C05 auditor: layout on free / realloc, double free, unknown
//! pointer, red zone after the requested size, poison of freed blocks with a quarantine,
//! and live-block accounting per owner tag.
//!
//! Under `cfg(miri)` or the `sysalloc` feature everything is forwarded to `System`.

use std::alloc::{GlobalAlloc, Layout, System};
use std::sync::atomic::{AtomicBool, AtomicU64, AtomicU8, Ordering};

pub struct SimAlloc;

pub const BASE: usize = 0x5100_0000_0000;
pub const SIZE: usize = 1 << 32; // 4 GiB of address space, committed lazily

pub const TAG_HARNESS: u8 = 0;
pub const TAG_SUT: u8 = 1;

const HDR: usize = 16;
const MAGIC_LIVE: u16 = 0xA11C;
const MAGIC_FREE: u16 = 0xF4EE;
const FILL_NEW: u8 = 0xCD;
const FILL_FREED: u8 = 0xDD;
const FILL_RED: u8 = 0xFD;
const NCLASS: usize = 32;
const NALIGN: usize = 13;
const QUARANTINE: usize = 128;

static ON: AtomicBool = AtomicBool::new(false);
static LOCK: AtomicBool = AtomicBool::new(false);
static TAG: AtomicU8 = AtomicU8::new(TAG_HARNESS);
static ERR_FLAG: AtomicBool = AtomicBool::new(false);
static ERR_COUNT: AtomicU64 = AtomicU64::new(0);

#[repr(C)]
#[derive(Clone, Copy)]
struct Header {
    size: u32,
    align_log2: u8,
    tag: u8,
    magic: u16,
    seq: u64,
}

struct State {
    mapped: bool,
    bump: usize,
    high_water: usize,
    free: [[usize; NALIGN]; NCLASS],
    quarantine: [usize; QUARANTINE],
    q_head: usize,
    q_len: usize,
    seq: u64,
    live: [u64; 2],
    live_bytes: [u64; 2],
    allocs: u64,
    frees: u64,
    reallocs: u64,
    peak_bytes: u64,
    err_buf: [u8; 320],
    err_len: usize,
}

static mut STATE: State = State {
    mapped: false,
    bump: BASE,
    high_water: BASE,
    free: [[0; NALIGN]; NCLASS],
    quarantine: [0; QUARANTINE],
    q_head: 0,
    q_len: 0,
    seq: 0,
    live: [0; 2],
    live_bytes: [0; 2],
    allocs: 0,
    frees: 0,
    reallocs: 0,
    peak_bytes: 0,
    err_buf: [0; 320],
    err_len: 0,
};

struct Guard;
impl Guard {
    #[inline]
    fn take() -> Guard {
        while LOCK
            .compare_exchange_weak(false, true, Ordering::Acquire, Ordering::Relaxed)
            .is_err()
        {
            std::hint::spin_loop();
        }
        Guard
    }
}
impl Drop for Guard {
    #[inline]
    fn drop(&mut self) {
        LOCK.store(false, Ordering::Release);
    }
}

#[inline]
fn st() -> &'static mut State {
    // SAFETY: only called with LOCK held.
    unsafe { &mut *std::ptr::addr_of_mut!(STATE) }
}

#[inline]
pub fn in_arena(p: *const u8) -> bool {
    let a = p as usize;
    a >= BASE && a < BASE + SIZE
}

fn class_of(size: usize) -> (usize, usize) {
    let rounded = size.max(16).next_power_of_two();
    (rounded.trailing_zeros() as usize, rounded)
}

fn put_str(buf: &mut [u8], pos: &mut usize, s: &str) {
    for b in s.bytes() {
        if *pos < buf.len() {
            buf[*pos] = b;
            *pos += 1;
        }
    }
}

fn put_hex(buf: &mut [u8], pos: &mut usize, v: u64) {
    put_str(buf, pos, "0x");
    let mut started = false;
    for i in (0..16).rev() {
        let d = ((v >> (i * 4)) & 0xF) as u8;
        if d != 0 || started || i == 0 {
            started = true;
            let c = if d < 10 { b'0' + d } else { b'a' + d - 10 };
            if *pos < buf.len() {
                buf[*pos] = c;
                *pos += 1;
            }
        }
    }
}

/// Record the first error of the run (no allocation).
fn report(s: &mut State, kind: &str, ptr: usize, a: u64, b: u64, c: u64) {
    ERR_COUNT.fetch_add(1, Ordering::Relaxed);
    if ERR_FLAG.swap(true, Ordering::Relaxed) {
        return;
    }
    let mut pos = 0;
    let buf = &mut s.err_buf;
    put_str(buf, &mut pos, kind);
    put_str(buf, &mut pos, " ptr=+");
    put_hex(buf, &mut pos, ptr.wrapping_sub(BASE) as u64);
    put_str(buf, &mut pos, " a=");
    put_hex(buf, &mut pos, a);
    put_str(buf, &mut pos, " b=");
    put_hex(buf, &mut pos, b);
    put_str(buf, &mut pos, " c=");
    put_hex(buf, &mut pos, c);
    s.err_len = pos;
}

unsafe fn hdr_of(user: usize) -> *mut Header {
    (user - HDR) as *mut Header
}

unsafe fn arena_alloc(layout: Layout) -> *mut u8 {
    let _g = Guard::take();
    let s = st();
    let size = layout.size();
    let align = layout.align().max(16);
    let al = align.trailing_zeros() as usize;
    let (cl, rounded) = class_of(size);
    if cl >= NCLASS || al >= NALIGN {
        report(s, "arena-unsupported-layout", BASE, size as u64, align as u64, 0);
        return std::ptr::null_mut();
    }
    let tag = TAG.load(Ordering::Relaxed);
    let user;
    let head = s.free[cl][al];
    if head != 0 {
        user = head;
        let next = *(user as *const usize);
        s.free[cl][al] = next;
        // Late write-after-free detection: everything after the link word must still be poison.
        let body = std::slice::from_raw_parts((user + 8) as *const u8, rounded - 8);
        if let Some(i) = body.iter().position(|b| *b != FILL_FREED) {
            report(s, "write-after-free(free-list)", user, (i + 8) as u64, body[i] as u64, rounded as u64);
        }
        let h = hdr_of(user);
        if (*h).magic != MAGIC_FREE {
            report(s, "free-list-header-corrupt", user, (*h).magic as u64, 0, 0);
        }
    } else {
        let start = (s.bump + HDR + align - 1) & !(align - 1);
        let end = start + rounded;
        if end > BASE + SIZE {
            // The simulator's own capacity, not a finding about the library: say so and stop (the
            // driver turns this into a harness error).
            let msg = b"HARNESS arena exhausted (4 GiB): this run needs more memory than the simulator provides\n";
            libc::write(2, msg.as_ptr() as *const libc::c_void, msg.len());
            libc::_exit(3);
        }
        s.bump = end;
        if end > s.high_water {
            s.high_water = end;
        }
        user = start;
    }
    s.seq += 1;
    *hdr_of(user) = Header {
        size: size as u32,
        align_log2: layout.align().trailing_zeros() as u8,
        tag,
        magic: MAGIC_LIVE,
        seq: s.seq,
    };
    std::ptr::write_bytes(user as *mut u8, FILL_NEW, size);
    std::ptr::write_bytes((user + size) as *mut u8, FILL_RED, rounded - size);
    s.allocs += 1;
    s.live[(tag & 1) as usize] += 1;
    s.live_bytes[(tag & 1) as usize] += size as u64;
    let total = s.live_bytes[0] + s.live_bytes[1];
    if total > s.peak_bytes {
        s.peak_bytes = total;
    }
    user as *mut u8
}

/// Returns false if the free was rejected (error reported, nothing released).
unsafe fn arena_dealloc(ptr: *mut u8, layout: Layout) -> bool {
    let _g = Guard::take();
    let s = st();
    let user = ptr as usize;
    if user < BASE + HDR || user >= s.high_water || user & 15 != 0 {
        report(s, "free-of-unknown-pointer", user, layout.size() as u64, layout.align() as u64, 0);
        return false;
    }
    let h = hdr_of(user);
    let hd = *h;
    if hd.magic == MAGIC_FREE {
        report(s, "double-free", user, layout.size() as u64, hd.size as u64, hd.seq);
        return false;
    }
    if hd.magic != MAGIC_LIVE {
        report(s, "free-of-unknown-pointer", user, layout.size() as u64, hd.magic as u64, 1);
        return false;
    }
    if hd.size as usize != layout.size() || hd.align_log2 as u32 != layout.align().trailing_zeros() {
        report(
            s,
            "free-with-wrong-layout",
            user,
            ((layout.size() as u64) << 8) | layout.align().trailing_zeros() as u64,
            ((hd.size as u64) << 8) | hd.align_log2 as u64,
            hd.seq,
        );
        // Continue with the recorded layout so the arena itself stays consistent.
    }
    let size = hd.size as usize;
    let (cl, rounded) = class_of(size);
    let red = std::slice::from_raw_parts((user + size) as *const u8, rounded - size);
    if let Some(i) = red.iter().position(|b| *b != FILL_RED) {
        report(s, "write-past-end", user, (size + i) as u64, red[i] as u64, hd.seq);
    }
    (*h).magic = MAGIC_FREE;
    std::ptr::write_bytes(user as *mut u8, FILL_FREED, rounded);
    let t = (hd.tag & 1) as usize;
    s.live[t] = s.live[t].wrapping_sub(1);
    s.live_bytes[t] = s.live_bytes[t].wrapping_sub(size as u64);
    s.frees += 1;
    // Quarantine.
    if s.q_len == QUARANTINE {
        let old = s.quarantine[s.q_head];
        s.q_head = (s.q_head + 1) % QUARANTINE;
        s.q_len -= 1;
        release_to_free_list(s, old);
    }
    let tail = (s.q_head + s.q_len) % QUARANTINE;
    s.quarantine[tail] = user;
    s.q_len += 1;
    let _ = cl;
    true
}

unsafe fn release_to_free_list(s: &mut State, user: usize) {
    let hd = *hdr_of(user);
    let size = hd.size as usize;
    let (cl, rounded) = class_of(size);
    let align = (1usize << hd.align_log2).max(16);
    let al = align.trailing_zeros() as usize;
    let body = std::slice::from_raw_parts(user as *const u8, rounded);
    if let Some(i) = body.iter().position(|b| *b != FILL_FREED) {
        report(s, "write-after-free(quarantine)", user, i as u64, body[i] as u64, hd.seq);
        std::ptr::write_bytes(user as *mut u8, FILL_FREED, rounded);
    }
    *(user as *mut usize) = s.free[cl][al];
    s.free[cl][al] = user;
}

unsafe impl GlobalAlloc for SimAlloc {
    #[inline]
    unsafe fn alloc(&self, layout: Layout) -> *mut u8 {
        if cfg!(any(miri, feature = "sysalloc")) || !ON.load(Ordering::Relaxed) {
            return System.alloc(layout);
        }
        arena_alloc(layout)
    }

    #[inline]
    unsafe fn dealloc(&self, ptr: *mut u8, layout: Layout) {
        if cfg!(any(miri, feature = "sysalloc")) || !in_arena(ptr) {
            return System.dealloc(ptr, layout);
        }
        arena_dealloc(ptr, layout);
    }

    unsafe fn realloc(&self, ptr: *mut u8, layout: Layout, new_size: usize) -> *mut u8 {
        if cfg!(any(miri, feature = "sysalloc")) {
            return System.realloc(ptr, layout, new_size);
        }
        let on = ON.load(Ordering::Relaxed);
        if !in_arena(ptr) && !on {
            return System.realloc(ptr, layout, new_size);
        }
        if in_arena(ptr) {
            let _g = Guard::take();
            let s = st();
            s.reallocs += 1;
            let user = ptr as usize;
            if user >= BASE + HDR && user < s.high_water {
                let hd = *hdr_of(user);
                if hd.magic == MAGIC_FREE {
                    report(s, "realloc-of-freed-block", user, layout.size() as u64, hd.size as u64, hd.seq);
                } else if hd.magic == MAGIC_LIVE
                    && (hd.size as usize != layout.size()
                        || hd.align_log2 as u32 != layout.align().trailing_zeros())
                {
                    report(
                        s,
                        "realloc-with-wrong-layout",
                        user,
                        ((layout.size() as u64) << 8) | layout.align().trailing_zeros() as u64,
                        ((hd.size as u64) << 8) | hd.align_log2 as u64,
                        hd.seq,
                    );
                }
            }
        }
        // Always move: deterministic, and stale pointers into the old block hit poison.
        let new_layout = Layout::from_size_align_unchecked(new_size, layout.align());
        let new = self.alloc(new_layout);
        if !new.is_null() {
            std::ptr::copy_nonoverlapping(ptr, new, layout.size().min(new_size));
            self.dealloc(ptr, layout);
        }
        new
    }
}

#[derive(Clone, Copy, Debug, Default)]
pub struct Stats {
    pub allocs: u64,
    pub frees: u64,
    pub reallocs: u64,
    pub live_harness: u64,
    pub live_sut: u64,
    pub live_sut_bytes: u64,
    pub peak_bytes: u64,
    pub errors: u64,
}

/// Start a run: reset the arena and route all allocations to it.
pub fn begin_run() {
    if cfg!(any(miri, feature = "sysalloc")) {
        return;
    }
    let _g = Guard::take();
    let s = st();
    unsafe {
        if !s.mapped {
            let p = libc::mmap(
                BASE as *mut libc::c_void,
                SIZE,
                libc::PROT_READ | libc::PROT_WRITE,
                libc::MAP_PRIVATE | libc::MAP_ANONYMOUS | libc::MAP_NORESERVE | libc::MAP_FIXED_NOREPLACE,
                -1,
                0,
            );
            if p as usize != BASE {
                let msg = b"HARNESS-ERROR arena mmap failed\n";
                libc::write(2, msg.as_ptr() as *const libc::c_void, msg.len());
                libc::_exit(2);
            }
            s.mapped = true;
        } else if s.high_water > BASE {
            // Give the pages back so long batches do not accumulate resident memory.
            let len = (s.high_water - BASE + 4095) & !4095;
            if len > (64 << 20) {
                libc::madvise(BASE as *mut libc::c_void, len, libc::MADV_DONTNEED);
            }
        }
    }
    s.bump = BASE;
    s.high_water = BASE;
    s.free = [[0; NALIGN]; NCLASS];
    s.q_head = 0;
    s.q_len = 0;
    s.seq = 0;
    s.live = [0; 2];
    s.live_bytes = [0; 2];
    s.allocs = 0;
    s.frees = 0;
    s.reallocs = 0;
    s.peak_bytes = 0;
    s.err_len = 0;
    ERR_FLAG.store(false, Ordering::Relaxed);
    ERR_COUNT.store(0, Ordering::Relaxed);
    TAG.store(TAG_HARNESS, Ordering::Relaxed);
    ON.store(true, Ordering::Relaxed);
}

/// Stop routing allocations to the arena. Blocks still live in the arena stay readable until the
/// next `begin_run`.
pub fn end_run() -> Stats {
    if cfg!(any(miri, feature = "sysalloc")) {
        return Stats::default();
    }
    ON.store(false, Ordering::Relaxed);
    stats()
}

pub fn stats() -> Stats {
    if cfg!(any(miri, feature = "sysalloc")) {
        return Stats::default();
    }
    let _g = Guard::take();
    let s = st();
    Stats {
        allocs: s.allocs,
        frees: s.frees,
        reallocs: s.reallocs,
        live_harness: s.live[0],
        live_sut: s.live[1],
        live_sut_bytes: s.live_bytes[1],
        peak_bytes: s.peak_bytes,
        errors: ERR_COUNT.load(Ordering::Relaxed),
    }
}

pub fn is_on() -> bool {
    ON.load(Ordering::Relaxed)
}

/// First allocator error of this run, if any (clears nothing).
pub fn error() -> Option<String> {
    if !ERR_FLAG.load(Ordering::Relaxed) {
        return None;
    }
    let mut tmp = [0u8; 320];
    let n;
    {
        let _g = Guard::take();
        let s = st();
        n = s.err_len;
        tmp[..n].copy_from_slice(&s.err_buf[..n]);
    }
    Some(String::from_utf8_lossy(&tmp[..n]).into_owned())
}

pub fn has_error() -> bool {
    ERR_FLAG.load(Ordering::Relaxed)
}

/// Verify that a quarantined / freed block has not been written since it was freed, for all
/// blocks currently in quarantine (cheap end-of-run sweep).
pub fn sweep_quarantine() {
    if cfg!(any(miri, feature = "sysalloc")) {
        return;
    }
    let _g = Guard::take();
    let s = st();
    for i in 0..s.q_len {
        let user = s.quarantine[(s.q_head + i) % QUARANTINE];
        unsafe {
            let hd = *hdr_of(user);
            let (_, rounded) = class_of(hd.size as usize);
            let body = std::slice::from_raw_parts(user as *const u8, rounded);
            if let Some(j) = body.iter().position(|b| *b != FILL_FREED) {
                report(s, "write-after-free(sweep)", user, j as u64, body[j] as u64, hd.seq);
            }
        }
    }
}

/// Describe the block that contains `addr`, if `addr` is the start of a live arena block:
/// `(size, align)`.
pub fn live_block_at(addr: usize) -> Option<(usize, usize)> {
    if cfg!(any(miri, feature = "sysalloc")) {
        return None;
    }
    let _g = Guard::take();
    let s = st();
    if addr < BASE + HDR || addr >= s.high_water || addr & 15 != 0 {
        return None;
    }
    let hd = unsafe { *hdr_of(addr) };
    if hd.magic == MAGIC_LIVE {
        Some((hd.size as usize, 1usize << hd.align_log2))
    } else {
        None
    }
}

pub fn audits_enabled() -> bool {
    !cfg!(any(miri, feature = "sysalloc"))
}

/// Set the owner tag for subsequent allocations; returns the previous tag.
#[inline]
pub fn set_tag(tag: u8) -> u8 {
    TAG.swap(tag, Ordering::Relaxed)
}

pub struct TagScope(u8);
impl Drop for TagScope {
    #[inline]
    fn drop(&mut self) {
        TAG.store(self.0, Ordering::Relaxed);
    }
}
#[inline]
pub fn tag_scope(tag: u8) -> TagScope {
    TagScope(set_tag(tag))
}
