//! Shared core of the brood simulators: PRNG streams, deterministic auditing arena allocator,
//! callback fault plan, drop ledger, component zoo.

pub mod arena;
pub mod fault;
pub mod ledger;
pub mod rng;
pub mod sched;
pub mod zoo;

use std::sync::atomic::{AtomicBool, Ordering};
use std::sync::Mutex;

static LAST_PANIC: Mutex<Option<String>> = Mutex::new(None);
static VERBOSE_PANICS: AtomicBool = AtomicBool::new(false);

/// Install a panic hook that is silent for injected panics and records (instead of printing)
/// every other panic message with its location.
pub fn install_panic_hook(verbose: bool) {
    VERBOSE_PANICS.store(verbose, Ordering::Relaxed);
    std::panic::set_hook(Box::new(|info| {
        let _t = arena::tag_scope(arena::TAG_HARNESS);
        if info.payload().downcast_ref::<fault::Injected>().is_some() {
            return;
        }
        let msg = if let Some(s) = info.payload().downcast_ref::<&str>() {
            (*s).to_string()
        } else if let Some(s) = info.payload().downcast_ref::<String>() {
            s.clone()
        } else {
            "<non-string panic payload>".to_string()
        };
        let loc = info
            .location()
            .map(|l| format!("{}:{}:{}", l.file(), l.line(), l.column()))
            .unwrap_or_default();
        let text = format!("{msg} @ {loc}");
        if VERBOSE_PANICS.load(Ordering::Relaxed) {
            eprintln!("PANIC {text}");
        }
        let mut g = match LAST_PANIC.lock() {
            Ok(g) => g,
            Err(p) => p.into_inner(),
        };
        if g.is_none() {
            *g = Some(text);
        }
    }));
}

/// Take the first recorded non-injected panic since the last call.
pub fn take_panic() -> Option<String> {
    let _t = arena::tag_scope(arena::TAG_HARNESS);
    let mut g = match LAST_PANIC.lock() {
        Ok(g) => g,
        Err(p) => p.into_inner(),
    };
    g.take()
}

/// JSON string escaping for hand-written output.
pub fn json_escape(s: &str) -> String {
    let mut out = String::with_capacity(s.len() + 2);
    for c in s.chars() {
        match c {
            '"' => out.push_str("\\\""),
            '\\' => out.push_str("\\\\"),
            '\n' => out.push_str("\\n"),
            '\r' => out.push_str("\\r"),
            '\t' => out.push_str("\\t"),
            c if (c as u32) < 0x20 => out.push_str(&format!("\\u{:04x}", c as u32)),
            c => out.push(c),
        }
    }
    out
}

fn unsimulated_entry(what: &'static str) {
    let _t = arena::tag_scope(arena::TAG_HARNESS);
    eprintln!("HARNESS-ERROR unsimulated rayon entry point reached while a simulation is active: {what}");
    std::process::exit(2);
}

static RAYON_HOOKS: rayon_core::sim::Hooks = rayon_core::sim::Hooks {
    join: sched::join,
    num_threads: sched::num_threads,
    unsimulated: unsimulated_entry,
};

/// Route rayon's fork/join through the simulated scheduler for the rest of the process.
pub fn install_rayon_seam() {
    rayon_core::sim::install(&RAYON_HOOKS);
}
