//! Simulated fork/join scheduler (the transport seam of E2).
//!
//! Logical threads are real OS threads that pass a baton: exactly one runs at any time and the
//! simulator decides at every yield point (fork, join, block, explicit yield, completion) who
//! runs next, from a seeded stream or from a recorded decision list. Every fork gets an id and
//! every strand a series-parallel path, so "could these two accesses overlap in *some*
//! interleaving" is decided structurally, independent of the interleaving the run took.

use crate::arena;
use crate::rng::Rng;
use std::cell::Cell;
use std::sync::{Condvar, Mutex, MutexGuard};

#[derive(Clone, Copy, Debug, PartialEq, Eq)]
pub enum Strategy {
    /// Uniformly random choice at every yield point.
    Random,
    /// Keep running the current thread; switch with probability 1/preempt_den at yield points.
    Sticky { preempt_den: u32 },
    /// Always run the most recently created runnable thread.
    Newest,
    /// Always run the oldest runnable thread.
    Oldest,
    /// Never run logical thread `victim mod live` unless nothing else is runnable (stalled worker).
    Starve { victim: u32 },
}

#[derive(Clone, Debug)]
pub struct SimConfig {
    pub num_threads: usize,
    pub strategy: Strategy,
    /// A fork is stolen with probability steal_num / 8 (when a worker is free).
    pub steal_num: u32,
    /// Whether the outermost join behaves as if called from outside the pool (rayon reports
    /// `migrated() == true` to both closures in that case).
    pub root_injected: bool,
    pub step_budget: u64,
    /// Execute stolen forks to completion on the calling thread, before or after `a` by draw
    /// (no OS threads; used under Miri).
    pub inline_only: bool,
}

#[derive(Clone, Copy, Debug, PartialEq, Eq)]
enum TState {
    Runnable,
    Blocked(usize),
    Done,
}

struct Logical {
    state: TState,
    path: Vec<(u32, u8)>,
    created_seq: u64,
    strand: Option<u32>,
}

#[derive(Clone, Debug)]
pub struct Access {
    pub task: u32,
    pub addr: usize,
    pub write: bool,
    pub strand: u32,
    /// Free-form tag of what was accessed (component index, or 0x100 + resource index).
    pub what: u16,
}

#[derive(Clone, Debug)]
pub struct TaskSpan {
    pub task: u32,
    pub strand: u32,
    pub begin_step: u64,
    pub end_step: u64,
    pub logical: usize,
}

#[derive(Default, Clone, Debug)]
pub struct Stats {
    pub forks: u64,
    pub steals: u64,
    pub inline_forks: u64,
    pub yields: u64,
    pub switches: u64,
    pub blocks: u64,
    pub steps: u64,
    pub max_live_threads: usize,
    pub decisions: u64,
    pub denied_steals: u64,
}

pub struct Outcome {
    pub accesses: Vec<Access>,
    pub spans: Vec<TaskSpan>,
    pub strands: Vec<Vec<(u32, u8)>>,
    pub decisions: Vec<u16>,
    pub stats: Stats,
    pub failure: Option<String>,
    pub shape_hash: u64,
    pub order_hash: u64,
}

struct Inner {
    cfg: SimConfig,
    threads: Vec<Logical>,
    current: usize,
    rng: Rng,
    decisions: Vec<u16>,
    replay: Option<Vec<u16>>,
    replay_pos: usize,
    next_fork: u32,
    seq: u64,
    accesses: Vec<Access>,
    spans: Vec<TaskSpan>,
    strands: Vec<Vec<(u32, u8)>>,
    stats: Stats,
    failure: Option<String>,
    shape: crate::rng::Fnv,
    order: crate::rng::Fnv,
    aborting: bool,
}

static INNER: Mutex<Option<Inner>> = Mutex::new(None);
static CV: Condvar = Condvar::new();

thread_local! {
    static CURRENT: Cell<usize> = const { Cell::new(usize::MAX) };
}

/// Panic payload used to abandon a run that exceeded its step budget or deadlocked.
#[derive(Debug)]
pub struct SimAbort(pub String);

fn lock() -> MutexGuard<'static, Option<Inner>> {
    match INNER.lock() {
        Ok(g) => g,
        Err(p) => p.into_inner(),
    }
}

// ---------------------------------------------------------------------------------------------
// OS thread pool (created once per process, outside any arena run).
// ---------------------------------------------------------------------------------------------

type JobFn = *mut (dyn FnMut(bool) + Send);

struct Job {
    f: JobFn,
    logical: usize,
}
unsafe impl Send for Job {}

struct Worker {
    slot: Mutex<Option<Job>>,
    cv: Condvar,
    /// The OS thread is between taking a job and being back at its waiting loop.
    busy: std::sync::atomic::AtomicBool,
    /// The worker carries a logical thread that is not done yet. Only changed while the global lock
    /// is held, so that which worker a stolen job gets is a function of the simulated history and
    /// not of how quickly an OS thread gets back to its loop.
    assigned: std::sync::atomic::AtomicBool,
}

static POOL: Mutex<Vec<&'static Worker>> = Mutex::new(Vec::new());

/// Create the OS threads that will carry stolen jobs. Must be called while the arena is off.
static READY: Mutex<usize> = Mutex::new(0);
static READY_CV: Condvar = Condvar::new();

pub fn init_pool(n: usize) {
    let mut pool = POOL.lock().unwrap();
    let before = pool.len();
    let target = n.max(before);
    while pool.len() < n {
        let w: &'static Worker = Box::leak(Box::new(Worker {
            slot: Mutex::new(None),
            cv: Condvar::new(),
            busy: std::sync::atomic::AtomicBool::new(false),
            assigned: std::sync::atomic::AtomicBool::new(false),
        }));
        pool.push(w);
        std::thread::Builder::new()
            .stack_size(8 << 20)
            .spawn(move || worker_loop(w))
            .expect("spawn pool thread");
    }
    drop(pool);
    // Wait until every new thread has finished its start-up (which allocates thread-local
    // bookkeeping) and is parked: nothing of that may happen once the arena is switched on.
    let mut ready = READY.lock().unwrap();
    while *ready < target {
        ready = READY_CV.wait(ready).unwrap();
    }
}

fn worker_loop(w: &'static Worker) {
    // Touch everything that initialises lazily per thread before reporting ready.
    CURRENT.with(|c| c.set(usize::MAX));
    let _ = std::thread::current().id();
    let _ = std::thread::panicking();
    let _ = std::panic::catch_unwind(|| std::panic::panic_any(crate::fault::Injected { kind: crate::fault::Kind::Clone, k: 0 }));
    {
        let mut r = READY.lock().unwrap();
        *r += 1;
        READY_CV.notify_all();
    }
    loop {
        let job = {
            let mut g = w.slot.lock().unwrap();
            loop {
                if let Some(j) = g.take() {
                    break j;
                }
                g = w.cv.wait(g).unwrap();
            }
        };
        CURRENT.with(|c| c.set(job.logical));
        // Wait for the baton.
        let mut run = true;
        {
            let mut g = lock();
            loop {
                match g.as_ref() {
                    Some(inner) if inner.current == job.logical => break,
                    Some(inner) if inner.current == usize::MAX && inner.failure.is_some() => {
                        run = false;
                        break;
                    }
                    Some(_) => {}
                    None => {
                        run = false;
                        break;
                    }
                }
                g = CV.wait(g).unwrap_or_else(|p| p.into_inner());
            }
        }
        if run {
            // SAFETY: the forking thread blocks until this logical thread is done, so the closure
            // outlives the call. The closure itself never unwinds (it catches panics).
            unsafe { (*job.f)(true) };
        }
        // Completion.
        {
            let mut g = lock();
            w.assigned.store(false, std::sync::atomic::Ordering::Release);
            if let Some(inner) = g.as_mut() {
                inner.threads[job.logical].state = TState::Done;
                inner.order.u64(0xD0);
                inner.order.u64(job.logical as u64);
                for t in 0..inner.threads.len() {
                    if inner.threads[t].state == TState::Blocked(job.logical) {
                        inner.threads[t].state = TState::Runnable;
                    }
                }
                pick_next(inner, usize::MAX);
            }
            CV.notify_all();
        }
        CURRENT.with(|c| c.set(usize::MAX));
        w.busy.store(false, std::sync::atomic::Ordering::Release);
    }
}

// ---------------------------------------------------------------------------------------------
// Decisions
// ---------------------------------------------------------------------------------------------

fn decide(inner: &mut Inner, n: usize, default: usize, draw: impl FnOnce(&mut Rng) -> usize) -> usize {
    if n <= 1 {
        return 0;
    }
    inner.stats.decisions += 1;
    let c = if let Some(r) = &inner.replay {
        let v = r.get(inner.replay_pos).copied().map(|x| x as usize).unwrap_or(default);
        inner.replay_pos += 1;
        v.min(n - 1)
    } else {
        draw(&mut inner.rng).min(n - 1)
    };
    let _t = arena::tag_scope(arena::TAG_HARNESS);
    inner.decisions.push(c as u16);
    c
}

/// Choose the next logical thread to run. `me` is the thread giving up the baton (usize::MAX if it
/// is finished). Sets `inner.current`.
fn pick_next(inner: &mut Inner, me: usize) {
    let runnable: Vec<usize> = {
        let _t = arena::tag_scope(arena::TAG_HARNESS);
        (0..inner.threads.len()).filter(|i| inner.threads[*i].state == TState::Runnable).collect()
    };
    if runnable.is_empty() {
        if inner.threads.iter().all(|t| t.state == TState::Done) {
            inner.current = usize::MAX;
            return;
        }
        if inner.failure.is_none() {
            let _t = arena::tag_scope(arena::TAG_HARNESS);
            inner.failure = Some("deadlock: no runnable logical thread while work is unfinished".to_string());
        }
        inner.current = usize::MAX;
        return;
    }
    let default = runnable.iter().position(|t| *t == me).unwrap_or(0);
    let strategy = inner.cfg.strategy;
    let choice = decide(inner, runnable.len(), default, |rng| match strategy {
        Strategy::Random => rng.usize_below(runnable.len()),
        Strategy::Sticky { preempt_den } => {
            if runnable.contains(&me) && !rng.chance(1, preempt_den.max(1) as u64) {
                default
            } else {
                rng.usize_below(runnable.len())
            }
        }
        Strategy::Newest => runnable.len() - 1,
        Strategy::Oldest => 0,
        Strategy::Starve { victim } => {
            let v = runnable[victim as usize % runnable.len()];
            let others: Vec<usize> = (0..runnable.len()).filter(|i| runnable[*i] != v).collect();
            if others.is_empty() {
                0
            } else {
                others[rng.usize_below(others.len())]
            }
        }
    });
    let next = runnable[choice];
    if next != me {
        inner.stats.switches += 1;
    }
    inner.order.u64(next as u64);
    inner.current = next;
}

fn wait_for_baton(mut g: MutexGuard<'static, Option<Inner>>, me: usize) {
    loop {
        match g.as_ref() {
            Some(inner) if inner.current == me => return,
            Some(inner) if inner.current == usize::MAX && inner.failure.is_some() => {
                // Deadlock declared: everyone bails out.
                let msg = inner.failure.clone().unwrap_or_default();
                drop(g);
                std::panic::panic_any(SimAbort(msg));
            }
            None => return,
            _ => {}
        }
        g = CV.wait(g).unwrap_or_else(|p| p.into_inner());
    }
}

fn me() -> usize {
    let c = CURRENT.with(|c| c.get());
    if c == usize::MAX {
        0
    } else {
        c
    }
}

fn step(inner: &mut Inner) -> Result<(), String> {
    inner.stats.steps += 1;
    if inner.stats.steps > inner.cfg.step_budget && !inner.aborting {
        inner.aborting = true;
        let _t = arena::tag_scope(arena::TAG_HARNESS);
        let msg = format!("step budget of {} scheduler steps exceeded", inner.cfg.step_budget);
        if inner.failure.is_none() {
            inner.failure = Some(msg.clone());
        }
        return Err(msg);
    }
    Ok(())
}

/// Explicit yield point (called by system bodies between items).
pub fn yield_now() {
    let mut g = lock();
    let Some(inner) = g.as_mut() else { return };
    if inner.cfg.inline_only {
        return;
    }
    let me = me();
    inner.stats.yields += 1;
    if let Err(m) = step(inner) {
        drop(g);
        std::panic::panic_any(SimAbort(m));
    }
    pick_next(inner, me);
    if inner.current != me {
        CV.notify_all();
        wait_for_baton(g, me);
    }
}

fn intern_strand(inner: &mut Inner, path: &[(u32, u8)]) -> u32 {
    // Linear scan from the back: strands are few and recently used ones dominate.
    for (i, s) in inner.strands.iter().enumerate().rev() {
        if s.as_slice() == path {
            return i as u32;
        }
    }
    let _t = arena::tag_scope(arena::TAG_HARNESS);
    inner.strands.push(path.to_vec());
    (inner.strands.len() - 1) as u32
}

fn current_strand(inner: &mut Inner) -> u32 {
    let me = me();
    if let Some(s) = inner.threads[me].strand {
        return s;
    }
    let path = {
        let _t = arena::tag_scope(arena::TAG_HARNESS);
        inner.threads[me].path.clone()
    };
    let s = intern_strand(inner, &path);
    inner.threads[me].strand = Some(s);
    let _t = arena::tag_scope(arena::TAG_HARNESS);
    drop(path);
    s
}

/// Record that `task` can read or write the value at `addr` from the current strand.
pub fn record_access(task: u32, addr: usize, write: bool, what: u16) {
    let mut g = lock();
    let Some(inner) = g.as_mut() else { return };
    let strand = current_strand(inner);
    let _t = arena::tag_scope(arena::TAG_HARNESS);
    inner.accesses.push(Access { task, addr, write, strand, what });
}

pub fn task_begin(task: u32) -> usize {
    let mut g = lock();
    let Some(inner) = g.as_mut() else { return 0 };
    let strand = current_strand(inner);
    let step = inner.stats.steps;
    inner.order.u64(0xB0 + task as u64);
    let logical = me();
    let _t = arena::tag_scope(arena::TAG_HARNESS);
    inner.spans.push(TaskSpan { task, strand, begin_step: step, end_step: u64::MAX, logical });
    inner.spans.len() - 1
}

pub fn task_end(span: usize) {
    let mut g = lock();
    let Some(inner) = g.as_mut() else { return };
    let step = inner.stats.steps;
    if let Some(s) = inner.spans.get_mut(span) {
        s.end_step = step;
        let t = s.task;
        inner.order.u64(0xE0 + t as u64);
    }
}

pub fn is_active() -> bool {
    lock().is_some()
}

// ---------------------------------------------------------------------------------------------
// The join seam
// ---------------------------------------------------------------------------------------------

pub type DynJob<'a> = &'a mut (dyn FnMut(bool) + Send);

/// Simulated `rayon_core::join_context`. Both closures are run to completion (they catch their
/// own panics); `a` on the calling logical thread, `b` inline or on a new logical thread.
pub fn join(a: DynJob<'_>, b: DynJob<'_>) {
    let me = me();
    let (fork_id, steal, inj_a, inj_b_inline, b_first_inline, worker) = {
        let mut g = lock();
        let Some(inner) = g.as_mut() else {
            drop(g);
            a(false);
            b(false);
            return;
        };
        if let Err(m) = step(inner) {
            drop(g);
            std::panic::panic_any(SimAbort(m));
        }
        let fork_id = inner.next_fork;
        inner.next_fork += 1;
        inner.stats.forks += 1;
        let depth = inner.threads[me].path.len();
        let root = fork_id == 0;
        let injected = root && inner.cfg.root_injected;
        let live = inner.threads.iter().filter(|t| t.state != TState::Done).count();
        let can_steal = live < inner.cfg.num_threads;
        let steal_num = inner.cfg.steal_num as u64;
        let mut steal = false;
        if can_steal && steal_num > 0 {
            steal = decide(inner, 2, 0, |rng| if rng.chance(steal_num, 8) { 1 } else { 0 }) == 1;
        }
        let mut worker = None;
        let mut b_first = false;
        if steal && !inner.cfg.inline_only {
            // The first worker that carries no unfinished logical thread (a deterministic choice). Its OS
            // thread may still be on its way back to the waiting loop: wait for it (it needs no lock
            // for that), so that a steal is never refused for reasons of real time.
            let pool = POOL.lock().unwrap();
            for w in pool.iter() {
                if !w.assigned.swap(true, std::sync::atomic::Ordering::AcqRel) {
                    while w.busy.swap(true, std::sync::atomic::Ordering::Acquire) {
                        std::thread::yield_now();
                    }
                    worker = Some(*w);
                    break;
                }
            }
            if worker.is_none() {
                inner.stats.denied_steals += 1;
                steal = false;
            }
        }
        if steal && inner.cfg.inline_only {
            // The thief ran the job entirely before or entirely after `a`.
            b_first = decide(inner, 2, 0, |rng| rng.usize_below(2)) == 1;
        }
        inner.shape.u64(depth as u64);
        inner.shape.u64(steal as u64);
        if steal {
            inner.stats.steals += 1;
        } else {
            inner.stats.inline_forks += 1;
        }
        (fork_id, steal, injected, injected, b_first, worker)
    };

    let push = |side: u8| {
        let mut g = lock();
        if let Some(inner) = g.as_mut() {
            let _t = arena::tag_scope(arena::TAG_HARNESS);
            inner.threads[me].path.push((fork_id, side));
            inner.threads[me].strand = None;
        }
    };
    let pop = || {
        let mut g = lock();
        if let Some(inner) = g.as_mut() {
            inner.threads[me].path.pop();
            inner.threads[me].strand = None;
        }
    };

    if !steal {
        push(0);
        a(inj_a);
        pop();
        push(1);
        b(inj_b_inline);
        pop();
        return;
    }
    if worker.is_none() {
        // inline_only: stolen job executed as a whole before or after `a`.
        if b_first_inline {
            push(1);
            b(true);
            pop();
            push(0);
            a(inj_a);
            pop();
        } else {
            push(0);
            a(inj_a);
            pop();
            push(1);
            b(true);
            pop();
        }
        return;
    }
    let worker = worker.unwrap();
    // Create the logical thread for `b` and hand it to the OS thread.
    let child = {
        let mut g = lock();
        let inner = g.as_mut().unwrap();
        let _t = arena::tag_scope(arena::TAG_HARNESS);
        let mut path = inner.threads[me].path.clone();
        path.push((fork_id, 1));
        inner.seq += 1;
        let seq = inner.seq;
        inner.threads.push(Logical { state: TState::Runnable, path, created_seq: seq, strand: None });
        let live = inner.threads.iter().filter(|t| t.state != TState::Done).count();
        if live > inner.stats.max_live_threads {
            inner.stats.max_live_threads = live;
        }
        inner.threads.len() - 1
    };
    {
        // SAFETY: lifetime erasure; this function does not return before the child is done.
        let f: JobFn = unsafe { std::mem::transmute::<*mut (dyn FnMut(bool) + Send + '_), JobFn>(b as *mut _) };
        let mut s = worker.slot.lock().unwrap();
        *s = Some(Job { f, logical: child });
        worker.cv.notify_one();
    }
    // Yield point right after the fork: the child may start before `a`.
    {
        let mut g = lock();
        let inner = g.as_mut().unwrap();
        pick_next(inner, me);
        if inner.current != me {
            CV.notify_all();
            wait_for_baton(g, me);
        }
    }
    push(0);
    a(inj_a);
    pop();
    // Join: block until the child is done.
    {
        let mut g = lock();
        let inner = g.as_mut().unwrap();
        if inner.threads[child].state != TState::Done {
            inner.stats.blocks += 1;
            inner.threads[me].state = TState::Blocked(child);
            pick_next(inner, usize::MAX);
            CV.notify_all();
            wait_for_baton(g, me);
        }
    }
}

pub fn num_threads() -> usize {
    let g = lock();
    g.as_ref().map(|i| i.cfg.num_threads).unwrap_or(1)
}

// ---------------------------------------------------------------------------------------------
// Run control
// ---------------------------------------------------------------------------------------------

/// Start a simulation on the calling thread (logical thread 0).
pub fn begin(cfg: SimConfig, seed: u64, replay: Option<Vec<u16>>) {
    let _t = arena::tag_scope(arena::TAG_HARNESS);
    let mut g = lock();
    CURRENT.with(|c| c.set(0));
    *g = Some(Inner {
        cfg,
        threads: vec![Logical { state: TState::Runnable, path: Vec::new(), created_seq: 0, strand: None }],
        current: 0,
        rng: Rng::new(seed, 3),
        decisions: Vec::new(),
        replay,
        replay_pos: 0,
        next_fork: 0,
        seq: 0,
        accesses: Vec::new(),
        spans: Vec::new(),
        strands: Vec::new(),
        stats: Stats::default(),
        failure: None,
        shape: crate::rng::Fnv::default(),
        order: crate::rng::Fnv::default(),
        aborting: false,
    });
}

/// Finish the simulation and hand back what was recorded.
pub fn end() -> Outcome {
    let _t = arena::tag_scope(arena::TAG_HARNESS);
    let mut g = lock();
    let inner = g.take().expect("sched::end without begin");
    CV.notify_all();
    CURRENT.with(|c| c.set(usize::MAX));
    let _ = inner.threads.iter().map(|t| t.created_seq).max();
    Outcome {
        accesses: inner.accesses,
        spans: inner.spans,
        strands: inner.strands,
        decisions: inner.decisions,
        stats: inner.stats,
        failure: inner.failure,
        shape_hash: inner.shape.0,
        order_hash: inner.order.0,
    }
}

/// Are two strands logically parallel (could overlap in some interleaving of this fork/join tree)?
pub fn logically_parallel(a: &[(u32, u8)], b: &[(u32, u8)]) -> bool {
    for (x, y) in a.iter().zip(b.iter()) {
        if x == y {
            continue;
        }
        return x.0 == y.0 && x.1 != y.1;
    }
    false
}
