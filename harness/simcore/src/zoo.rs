//! Component and resource types with hooked trait impls and self-checking payloads.

use crate::fault::{self, Action, Kind};
use crate::ledger::{self, Origin};
use serde::de::Error as _;
use serde::ser::Error as _;
use serde::{Deserialize, Deserializer, Serialize, Serializer};
use std::fmt;

pub trait Tracked: Sized + 'static {
    const IX: u8;
    const NAME: &'static str;
    /// Whether values carry an individual serial.
    const HAS_SERIAL: bool;
    fn make(val: u64) -> Self;
    /// Normalise a logical value to what this type can store.
    fn norm(val: u64) -> u64 {
        val
    }
    fn serial(&self) -> u64;
    fn val(&self) -> u64;
    fn set_val(&mut self, val: u64);
    /// Integrity check of the stored bytes (not of liveness).
    fn integrity(&self) -> Result<(), String>;
    /// Address range occupied by the value itself.
    fn addr(&self) -> usize {
        self as *const Self as usize
    }
}

const fn magic(ix: u8) -> u64 {
    0xA5C3_0000_0000_5A3Cu64 ^ ((ix as u64 + 1).wrapping_mul(0x0101_0101_0101_0101) << 8)
}

#[inline]
fn tag_for(ix: u8, serial: u64, val: u64) -> u64 {
    magic(ix) ^ serial.rotate_left(32) ^ val.wrapping_mul(0x9E37_79B9_7F4A_7C15)
}

#[derive(Debug)]
#[repr(C)]
pub struct Payload {
    serial: u64,
    val: u64,
    tag: u64,
}

impl Payload {
    fn new(ix: u8, val: u64, origin: Origin) -> Payload {
        let serial = ledger::create(ix, origin);
        Payload { serial, val, tag: tag_for(ix, serial, val) }
    }
    fn new_untracked(ix: u8, val: u64, origin: Origin) -> Payload {
        let serial = ledger::create_untracked(ix, origin);
        Payload { serial, val, tag: tag_for(ix, serial, val) }
    }
    fn integrity(&self, ix: u8, name: &str) -> Result<(), String> {
        if self.tag != tag_for(ix, self.serial, self.val) {
            return Err(format!(
                "corrupt {name} value: serial={:#x} val={:#x} tag={:#x} (expected tag {:#x})",
                self.serial,
                self.val,
                self.tag,
                tag_for(ix, self.serial, self.val)
            ));
        }
        Ok(())
    }
    fn set(&mut self, ix: u8, val: u64) {
        self.val = val;
        self.tag = tag_for(ix, self.serial, val);
    }
}

fn pattern(val: u64, i: usize) -> u8 {
    (val.wrapping_mul(31).wrapping_add(i as u64 * 7 + 3) & 0xFF) as u8
}

fn vlen(val: u64) -> usize {
    (val % 23) as usize
}

macro_rules! common_impls {
    ($name:ident) => {
        impl Clone for $name {
            fn clone(&self) -> Self {
                fault::callback(Kind::Clone);
                <$name>::make_with(self.val(), Origin::Clone)
            }
        }
        impl PartialEq for $name {
            fn eq(&self, other: &Self) -> bool {
                fault::callback(Kind::Eq);
                self.val() == other.val()
            }
        }
        impl fmt::Debug for $name {
            fn fmt(&self, f: &mut fmt::Formatter<'_>) -> fmt::Result {
                fault::callback(Kind::Debug);
                write!(f, "{}({})", stringify!($name), self.val())
            }
        }
    };
}

macro_rules! serde_u64 {
    ($name:ident) => {
        impl Serialize for $name {
            fn serialize<S: Serializer>(&self, s: S) -> Result<S::Ok, S::Error> {
                if fault::callback(Kind::Ser) == Action::Fail {
                    return Err(S::Error::custom("injected serialize failure"));
                }
                s.serialize_u64(self.val())
            }
        }
        impl<'de> Deserialize<'de> for $name {
            fn deserialize<D: Deserializer<'de>>(d: D) -> Result<Self, D::Error> {
                if fault::callback(Kind::De) == Action::Fail {
                    return Err(D::Error::custom("injected deserialize failure"));
                }
                let v = u64::deserialize(d)?;
                Ok(<$name>::make_with(v, Origin::De))
            }
        }
    };
}

/// Plain inline value (optionally over-aligned).
macro_rules! inline_type {
    ($name:ident, $ix:expr, $align:literal) => {
        #[repr(C, align($align))]
        pub struct $name {
            p: Payload,
        }
        impl $name {
            fn make_with(val: u64, origin: Origin) -> Self {
                $name { p: Payload::new($ix, val, origin) }
            }
        }
        impl Tracked for $name {
            const IX: u8 = $ix;
            const NAME: &'static str = stringify!($name);
            const HAS_SERIAL: bool = true;
            fn make(val: u64) -> Self {
                Self::make_with(val, Origin::New)
            }
            fn serial(&self) -> u64 {
                self.p.serial
            }
            fn val(&self) -> u64 {
                self.p.val
            }
            fn set_val(&mut self, val: u64) {
                self.p.set($ix, val)
            }
            fn integrity(&self) -> Result<(), String> {
                if (self as *const Self as usize) % $align != 0 {
                    return Err(format!("misaligned {} at {:p}", stringify!($name), self));
                }
                self.p.integrity($ix, stringify!($name))
            }
        }
        impl Drop for $name {
            fn drop(&mut self) {
                ledger::dropped(self.p.serial, $ix, stringify!($name));
                fault::callback(Kind::Drop);
            }
        }
        common_impls!($name);
        serde_u64!($name);
    };
}

/// Plain inline value, over-aligned and wide: more than 256 bytes, so that rows holding it exceed
/// any small inline buffer and the type itself exceeds small-size thresholds. The padding words
/// are derived from the serial and checked on every observation.
macro_rules! wide_type {
    ($name:ident, $ix:expr, $align:literal, $words:literal) => {
        #[repr(C, align($align))]
        pub struct $name {
            p: Payload,
            pad: [u64; $words],
        }
        impl $name {
            fn make_with(val: u64, origin: Origin) -> Self {
                let p = Payload::new($ix, val, origin);
                let mut pad = [0u64; $words];
                for (i, w) in pad.iter_mut().enumerate() {
                    *w = p.serial.wrapping_mul(0x9E37_79B9_7F4A_7C15) ^ i as u64;
                }
                $name { p, pad }
            }
        }
        impl Tracked for $name {
            const IX: u8 = $ix;
            const NAME: &'static str = stringify!($name);
            const HAS_SERIAL: bool = true;
            fn make(val: u64) -> Self {
                Self::make_with(val, Origin::New)
            }
            fn serial(&self) -> u64 {
                self.p.serial
            }
            fn val(&self) -> u64 {
                self.p.val
            }
            fn set_val(&mut self, val: u64) {
                self.p.set($ix, val)
            }
            fn integrity(&self) -> Result<(), String> {
                if (self as *const Self as usize) % $align != 0 {
                    return Err(format!("misaligned {} at {:p}", stringify!($name), self));
                }
                self.p.integrity($ix, stringify!($name))?;
                for (i, w) in self.pad.iter().enumerate() {
                    if *w != self.p.serial.wrapping_mul(0x9E37_79B9_7F4A_7C15) ^ i as u64 {
                        return Err(format!("{} #{}: word {i} of its body is {:#x} (torn or foreign bytes)", stringify!($name), self.p.serial, *w));
                    }
                }
                Ok(())
            }
        }
        impl Drop for $name {
            fn drop(&mut self) {
                ledger::dropped(self.p.serial, $ix, stringify!($name));
                fault::callback(Kind::Drop);
            }
        }
        common_impls!($name);
        serde_u64!($name);
    };
}

/// Value owning a `Box`.
macro_rules! boxed_type {
    ($name:ident, $ix:expr) => {
        pub struct $name {
            b: Box<Payload>,
        }
        impl $name {
            fn make_with(val: u64, origin: Origin) -> Self {
                $name { b: Box::new(Payload::new($ix, val, origin)) }
            }
        }
        impl Tracked for $name {
            const IX: u8 = $ix;
            const NAME: &'static str = stringify!($name);
            const HAS_SERIAL: bool = true;
            fn make(val: u64) -> Self {
                Self::make_with(val, Origin::New)
            }
            fn serial(&self) -> u64 {
                self.b.serial
            }
            fn val(&self) -> u64 {
                self.b.val
            }
            fn set_val(&mut self, val: u64) {
                self.b.set($ix, val)
            }
            fn integrity(&self) -> Result<(), String> {
                let p = &*self.b as *const Payload as usize;
                if crate::arena::audits_enabled() && crate::arena::is_on() {
                    if crate::arena::live_block_at(p).is_none() {
                        return Err(format!(
                            "{} holds a box pointer {:#x} that is not a live allocation",
                            stringify!($name),
                            p
                        ));
                    }
                }
                self.b.integrity($ix, stringify!($name))
            }
        }
        impl Drop for $name {
            fn drop(&mut self) {
                ledger::dropped(self.b.serial, $ix, stringify!($name));
                fault::callback(Kind::Drop);
            }
        }
        common_impls!($name);
        serde_u64!($name);
    };
}

/// Value owning a `Vec<u8>` whose length and contents are a function of the logical value.
macro_rules! vec_type {
    ($name:ident, $ix:expr) => {
        pub struct $name {
            p: Payload,
            data: Vec<u8>,
        }
        impl $name {
            fn make_with(val: u64, origin: Origin) -> Self {
                let n = vlen(val);
                let mut data = Vec::with_capacity(n);
                for i in 0..n {
                    data.push(pattern(val, i));
                }
                $name { p: Payload::new($ix, val, origin), data }
            }
        }
        impl Tracked for $name {
            const IX: u8 = $ix;
            const NAME: &'static str = stringify!($name);
            const HAS_SERIAL: bool = true;
            fn make(val: u64) -> Self {
                Self::make_with(val, Origin::New)
            }
            fn serial(&self) -> u64 {
                self.p.serial
            }
            fn val(&self) -> u64 {
                self.p.val
            }
            fn set_val(&mut self, val: u64) {
                self.p.set($ix, val);
                let n = vlen(val);
                self.data.clear();
                for i in 0..n {
                    self.data.push(pattern(val, i));
                }
            }
            fn integrity(&self) -> Result<(), String> {
                self.p.integrity($ix, stringify!($name))?;
                let n = vlen(self.p.val);
                if self.data.len() != n {
                    return Err(format!(
                        "corrupt {}: data length {} != {}",
                        stringify!($name),
                        self.data.len(),
                        n
                    ));
                }
                for (i, b) in self.data.iter().enumerate() {
                    if *b != pattern(self.p.val, i) {
                        return Err(format!("corrupt {}: data byte {} is {:#x}", stringify!($name), i, b));
                    }
                }
                Ok(())
            }
        }
        impl Drop for $name {
            fn drop(&mut self) {
                ledger::dropped(self.p.serial, $ix, stringify!($name));
                fault::callback(Kind::Drop);
            }
        }
        common_impls!($name);
        impl Serialize for $name {
            fn serialize<S: Serializer>(&self, s: S) -> Result<S::Ok, S::Error> {
                if fault::callback(Kind::Ser) == Action::Fail {
                    return Err(S::Error::custom("injected serialize failure"));
                }
                (self.p.val, self.data.len() as u8).serialize(s)
            }
        }
        impl<'de> Deserialize<'de> for $name {
            fn deserialize<D: Deserializer<'de>>(d: D) -> Result<Self, D::Error> {
                if fault::callback(Kind::De) == Action::Fail {
                    return Err(D::Error::custom("injected deserialize failure"));
                }
                let (v, n) = <(u64, u8)>::deserialize(d)?;
                if vlen(v) != n as usize {
                    return Err(D::Error::custom("V: length does not match value"));
                }
                Ok(<$name>::make_with(v, Origin::De))
            }
        }
    };
}

/// Zero-sized value: accounted by counters only.
macro_rules! zst_type {
    ($name:ident, $ix:expr) => {
        pub struct $name {
            _private: (),
        }
        impl $name {
            fn make_with(_val: u64, _origin: Origin) -> Self {
                ledger::anon_create($ix);
                $name { _private: () }
            }
        }
        impl Tracked for $name {
            const IX: u8 = $ix;
            const NAME: &'static str = stringify!($name);
            const HAS_SERIAL: bool = false;
            fn make(val: u64) -> Self {
                Self::make_with(val, Origin::New)
            }
            fn norm(_val: u64) -> u64 {
                0
            }
            fn serial(&self) -> u64 {
                0
            }
            fn val(&self) -> u64 {
                0
            }
            fn set_val(&mut self, _val: u64) {}
            fn integrity(&self) -> Result<(), String> {
                Ok(())
            }
        }
        impl Drop for $name {
            fn drop(&mut self) {
                ledger::anon_drop($ix, stringify!($name));
                fault::callback(Kind::Drop);
            }
        }
        common_impls!($name);
        impl Serialize for $name {
            fn serialize<S: Serializer>(&self, s: S) -> Result<S::Ok, S::Error> {
                if fault::callback(Kind::Ser) == Action::Fail {
                    return Err(S::Error::custom("injected serialize failure"));
                }
                s.serialize_unit_struct(stringify!($name))
            }
        }
        impl<'de> Deserialize<'de> for $name {
            fn deserialize<D: Deserializer<'de>>(d: D) -> Result<Self, D::Error> {
                if fault::callback(Kind::De) == Action::Fail {
                    return Err(D::Error::custom("injected deserialize failure"));
                }
                struct UnitVisitor;
                impl<'de> serde::de::Visitor<'de> for UnitVisitor {
                    type Value = ();
                    fn expecting(&self, f: &mut fmt::Formatter) -> fmt::Result {
                        f.write_str("unit struct")
                    }
                    fn visit_unit<E>(self) -> Result<(), E> {
                        Ok(())
                    }
                }
                d.deserialize_unit_struct(stringify!($name), UnitVisitor)?;
                Ok(<$name>::make_with(0, Origin::De))
            }
        }
    };
}

/// One-byte value: accounted by counters, value checked against the model.
macro_rules! byte_type {
    ($name:ident, $ix:expr) => {
        pub struct $name {
            v: u8,
        }
        impl $name {
            fn make_with(val: u64, _origin: Origin) -> Self {
                ledger::anon_create($ix);
                $name { v: val as u8 }
            }
        }
        impl Tracked for $name {
            const IX: u8 = $ix;
            const NAME: &'static str = stringify!($name);
            const HAS_SERIAL: bool = false;
            fn make(val: u64) -> Self {
                Self::make_with(val, Origin::New)
            }
            fn norm(val: u64) -> u64 {
                val & 0xFF
            }
            fn serial(&self) -> u64 {
                0
            }
            fn val(&self) -> u64 {
                self.v as u64
            }
            fn set_val(&mut self, val: u64) {
                self.v = val as u8
            }
            fn integrity(&self) -> Result<(), String> {
                Ok(())
            }
        }
        impl Drop for $name {
            fn drop(&mut self) {
                ledger::anon_drop($ix, stringify!($name));
                fault::callback(Kind::Drop);
            }
        }
        common_impls!($name);
        impl Serialize for $name {
            fn serialize<S: Serializer>(&self, s: S) -> Result<S::Ok, S::Error> {
                if fault::callback(Kind::Ser) == Action::Fail {
                    return Err(S::Error::custom("injected serialize failure"));
                }
                s.serialize_u8(self.v)
            }
        }
        impl<'de> Deserialize<'de> for $name {
            fn deserialize<D: Deserializer<'de>>(d: D) -> Result<Self, D::Error> {
                if fault::callback(Kind::De) == Action::Fail {
                    return Err(D::Error::custom("injected deserialize failure"));
                }
                let v = u8::deserialize(d)?;
                Ok(<$name>::make_with(v as u64, Origin::De))
            }
        }
    };
}

/// Plain value WITHOUT a destructor (`needs_drop::<T>() == false`) that is not `Copy` and whose
/// `Clone` can fail: the configuration in which generic code may take "trivially droppable"
/// shortcuts. Its drops cannot be observed, so it is excluded from the live/dropped balance of the
/// ledger; it still carries a serial (each construction and each `Clone` makes a new one), so a
/// bitwise duplicate standing in for a clone is seen as one value object with two owners.
macro_rules! nodrop_type {
    ($name:ident, $ix:expr) => {
        #[repr(C)]
        pub struct $name {
            p: Payload,
        }
        impl $name {
            fn make_with(val: u64, origin: Origin) -> Self {
                $name { p: Payload::new_untracked($ix, val, origin) }
            }
        }
        impl Tracked for $name {
            const IX: u8 = $ix;
            const NAME: &'static str = stringify!($name);
            const HAS_SERIAL: bool = true;
            fn make(val: u64) -> Self {
                Self::make_with(val, Origin::New)
            }
            fn serial(&self) -> u64 {
                self.p.serial
            }
            fn val(&self) -> u64 {
                self.p.val
            }
            fn set_val(&mut self, val: u64) {
                self.p.set($ix, val)
            }
            fn integrity(&self) -> Result<(), String> {
                self.p.integrity($ix, stringify!($name))
            }
        }
        common_impls!($name);
        serde_u64!($name);
    };
}

// Components of registry R7 (and R10).
inline_type!(A, 0, 8);
zst_type!(Z, 1);
boxed_type!(H, 2);
wide_type!(O, 3, 64, 40);
byte_type!(S, 4);
vec_type!(V, 5);
inline_type!(W, 6, 16);
// Extra components of R10.
nodrop_type!(X, 7);
boxed_type!(Y, 8);
zst_type!(T, 9);

// Resources.
inline_type!(P0, 16, 8);
vec_type!(P1, 17);
zst_type!(P2, 18);
boxed_type!(P3, 19);

pub const COMPONENT_NAMES: [&str; 10] = ["A", "Z", "H", "O", "S", "V", "W", "X", "Y", "T"];
pub const HAS_SERIAL: [bool; 10] = [true, false, true, true, false, true, true, true, true, false];
/// Whether drops of the type are observable (it has a destructor that reports to the ledger).
pub const TRACKS_DROPS: [bool; 10] = [true, true, true, true, true, true, true, false, true, true];
pub const RESOURCE_NAMES: [&str; 4] = ["P0", "P1", "P2", "P3"];
pub const RES_HAS_SERIAL: [bool; 4] = [true, true, false, true];
pub const RES_IX_BASE: u8 = 16;

/// Normalise a value for component index `ix`.
pub fn norm_for(ix: u8, val: u64) -> u64 {
    match ix {
        1 | 9 | 18 => 0,
        4 => val & 0xFF,
        _ => val,
    }
}
