#!/usr/bin/env python3
"""Generate the registry-specific call sites of the world simulator (E1).

Compile-time types cannot be chosen at run time, so every entity shape, component permutation,
query, entry query, entries query and resource view the simulator can pick is emitted here as one
match arm, together with a descriptor from which the harness evaluates the reference model.

usage: gen_world.py <registry: r7|r10> <out.rs> [seed]
"""
import random
import sys

REGISTRIES = {
    "r7": ["A", "Z", "H", "O", "S", "V", "W"],
    "r0": [],
    "r8": ["A", "Z", "H", "O", "S", "V", "W", "X"],
    "r9": ["A", "Z", "H", "O", "S", "V", "W", "X", "Y"],
    "r10": ["A", "Z", "H", "O", "S", "V", "W", "X", "Y", "T"],
}
COMP_IX = {"A": 0, "Z": 1, "H": 2, "O": 3, "S": 4, "V": 5, "W": 6, "X": 7, "Y": 8, "T": 9}
RESOURCES = ["P0", "P1", "P2", "P3"]

K_REF, K_MUT, K_OPT, K_OPTMUT, K_ID = 0, 1, 2, 3, 4
KIND_NAMES = {K_REF: "ref", K_MUT: "mut", K_OPT: "opt", K_OPTMUT: "optmut", K_ID: "id"}


def view_ty(kind, comp, lt=""):
    l = f"{lt} " if lt else ""
    if kind == K_REF:
        return f"&{l}{comp}"
    if kind == K_MUT:
        return f"&{l}mut {comp}"
    if kind == K_OPT:
        return f"Option<&{l}{comp}>"
    if kind == K_OPTMUT:
        return f"Option<&{l}mut {comp}>"
    return "entity::Identifier"


def views_ty(views, lt=""):
    return "Views!(" + ", ".join(view_ty(k, c, lt) for (k, c) in views) + ")"


# ---- filters -------------------------------------------------------------------------------

def filt_ty(f):
    t = f[0]
    if t == "none":
        return "filter::None"
    if t == "has":
        return f"filter::Has<{f[1]}>"
    if t == "not":
        return f"filter::Not<{filt_ty(f[1])}>"
    if t == "and":
        return f"filter::And<{filt_ty(f[1])}, {filt_ty(f[2])}>"
    if t == "or":
        return f"filter::Or<{filt_ty(f[1])}, {filt_ty(f[2])}>"
    if t == "view":
        return view_ty(f[1], f[2])
    if t == "views":
        return views_ty(f[1])
    raise ValueError(f)


def filt_desc(f):
    t = f[0]
    if t == "none":
        return "F::None"
    if t == "has":
        return f"F::Has({COMP_IX[f[1]]})"
    if t == "not":
        return f"F::Not(&{filt_desc(f[1])})"
    if t == "and":
        return f"F::And(&{filt_desc(f[1])}, &{filt_desc(f[2])})"
    if t == "or":
        return f"F::Or(&{filt_desc(f[1])}, &{filt_desc(f[2])})"
    if t == "view":
        return f"F::View({f[1]}, {COMP_IX.get(f[2], 255)})"
    if t == "views":
        return "F::Views(&[" + ", ".join(f"({k}, {COMP_IX.get(c, 255)})" for (k, c) in f[1]) + "])"
    raise ValueError(f)


def rand_filter(rng, comps, depth):
    if depth == 0 or rng.random() < 0.3:
        r = rng.random()
        if r < 0.15:
            return ("none",)
        if r < 0.7:
            return ("has", rng.choice(comps))
        if r < 0.9:
            k = rng.choice([K_REF, K_MUT, K_OPT, K_OPTMUT, K_ID])
            return ("view", k, rng.choice(comps) if k != K_ID else None)
        n = rng.randint(0, 2)
        cs = rng.sample(comps, n)
        return ("views", [(rng.choice([K_REF, K_MUT, K_OPT, K_OPTMUT]), c) for c in cs])
    r = rng.random()
    if r < 0.3:
        return ("not", rand_filter(rng, comps, depth - 1))
    if r < 0.65:
        return ("and", rand_filter(rng, comps, depth - 1), rand_filter(rng, comps, depth - 1))
    return ("or", rand_filter(rng, comps, depth - 1), rand_filter(rng, comps, depth - 1))


def filter_comps(f):
    t = f[0]
    if t in ("none",):
        return set()
    if t == "has":
        return {f[1]}
    if t == "not":
        return filter_comps(f[1])
    if t in ("and", "or"):
        return filter_comps(f[1]) | filter_comps(f[2])
    if t == "view":
        return {f[2]} if f[2] else set()
    if t == "views":
        return {c for (_, c) in f[1]}
    raise ValueError(f)


# ---- catalogue generation ---------------------------------------------------------------------

def gen_queries(rng, comps, n_random):
    if not comps:
        # Empty registry: only identifier / empty views and component-free filters exist.
        return [([], ("none",)), ([(K_ID, None)], ("none",)), ([(K_ID, None)], ("view", K_ID, None)), ([], ("views", [])),
                ([(K_ID, None)], ("not", ("none",))), ([(K_ID, None)], ("and", ("none",), ("view", K_ID, None))),
                ([], ("or", ("not", ("none",)), ("none",)))]
    qs = []
    # every view kind on every component alone
    for c in comps:
        for k in (K_REF, K_MUT, K_OPT, K_OPTMUT):
            qs.append(([(k, c)], ("none",)))
    # identifier alone, empty views
    qs.append(([(K_ID, None)], ("none",)))
    qs.append(([], ("none",)))
    qs.append(([], ("has", comps[0])))
    # all kind pairs on two components in both orders
    pairs = [(a, b) for a in (K_REF, K_MUT, K_OPT, K_OPTMUT) for b in (K_REF, K_MUT, K_OPT, K_OPTMUT)]
    for (ka, kb) in pairs:
        c1, c2 = rng.sample(comps, 2)
        qs.append(([(ka, c1), (kb, c2)], ("none",)))
        qs.append(([(kb, c2), (K_ID, None), (ka, c1)], ("none",)))
    # each filter constructor once at top level
    c1, c2, c3 = rng.sample(comps, 3)
    for f in [
        ("has", c1),
        ("not", ("has", c1)),
        ("and", ("has", c1), ("has", c2)),
        ("or", ("has", c1), ("has", c2)),
        ("not", ("or", ("has", c1), ("not", ("has", c2)))),
        ("view", K_REF, c1),
        ("view", K_MUT, c1),
        ("view", K_OPT, c1),
        ("view", K_OPTMUT, c1),
        ("view", K_ID, None),
        ("views", [(K_REF, c1), (K_OPT, c2)]),
        ("views", []),
        ("and", ("not", ("view", K_REF, c1)), ("or", ("has", c2), ("has", c3))),
    ]:
        qs.append(([(K_ID, None), (K_OPT, c3)], f))
        qs.append(([(K_MUT, c3)], f))
    # random
    for _ in range(n_random):
        nv = rng.choice([0, 1, 1, 2, 2, 3, 3, 4, 5])
        cs = rng.sample(comps, min(nv, len(comps)))
        views = [(rng.choice([K_REF, K_MUT, K_OPT, K_OPTMUT]), c) for c in cs]
        if rng.random() < 0.6:
            views.insert(rng.randint(0, len(views)), (K_ID, None))
        f = rand_filter(rng, comps, 3)
        qs.append((views, f))
    return qs


def kinds_compatible_sub(sub, sup):
    """Sub-view kind `sub` obtainable from super-view kind `sup` (subset.rs)."""
    table = {
        K_REF: {K_REF, K_MUT, K_OPT, K_OPTMUT},
        K_MUT: {K_MUT, K_OPTMUT},
        K_OPT: {K_REF, K_MUT, K_OPT, K_OPTMUT},
        K_OPTMUT: {K_MUT, K_OPTMUT},
    }
    return sup in table[sub]


def gen_entries_queries(rng, comps, n_random):
    """(iter_views, iter_filter, entry_views, sub_views, sub_filter)"""
    if not comps:
        return [([(K_ID, None)], ("none",), [(K_ID, None)], [(K_ID, None)], ("none",)), ([], ("none",), [(K_ID, None)], [], ("none",)),
                ([(K_ID, None)], ("none",), [], [], ("none",))]
    out = []
    sub_sup = [(s, p) for s in (K_REF, K_MUT, K_OPT, K_OPTMUT) for p in (K_REF, K_MUT, K_OPT, K_OPTMUT)
               if kinds_compatible_sub(s, p)]
    # every pairing once, on a component the iterator does not touch
    for (s, p) in sub_sup:
        c, d = rng.sample(comps, 2)
        out.append(([(K_ID, None), (K_OPT, d)] if p in (K_REF, K_OPT) else [(K_ID, None)], ("none",),
                    [(p, c)], [(s, c)], ("none",)))
    # identifier and empty sub views
    c, d = rng.sample(comps, 2)
    out.append(([(K_REF, d)], ("none",), [(K_MUT, c), (K_ID, None)], [(K_ID, None)], ("none",)))
    out.append(([(K_REF, d)], ("none",), [(K_MUT, c)], [], ("none",)))
    out.append(([(K_REF, d)], ("none",), [(K_MUT, c), (K_ID, None)], [(K_ID, None), (K_REF, c)], ("has", c)))
    for _ in range(n_random):
        n_it = rng.randint(0, 2)
        n_en = rng.randint(1, 4)
        cs = rng.sample(comps, min(len(comps), n_it + n_en))
        it_cs, en_cs = cs[:n_it], cs[n_it:]
        it_views = [(rng.choice([K_REF, K_MUT, K_OPT, K_OPTMUT]), c) for c in it_cs]
        en_views = [(rng.choice([K_REF, K_MUT, K_OPT, K_OPTMUT]), c) for c in en_cs]
        # shared immutable component between iterator and entries is allowed
        if it_cs and rng.random() < 0.3:
            shared = it_cs[0]
            it_views[0] = (rng.choice([K_REF, K_OPT]), shared)
            en_views.append((rng.choice([K_REF, K_OPT]), shared))
        if rng.random() < 0.5:
            it_views.insert(rng.randint(0, len(it_views)), (K_ID, None))
        if rng.random() < 0.4:
            en_views.insert(rng.randint(0, len(en_views)), (K_ID, None))
        # sub views: subset of entry views with compatible kinds, random order
        subs = []
        for (p, c) in en_views:
            if rng.random() < 0.7:
                if p == K_ID:
                    subs.append((K_ID, None))
                else:
                    choices = [s for s in (K_REF, K_MUT, K_OPT, K_OPTMUT) if kinds_compatible_sub(s, p)]
                    subs.append((rng.choice(choices), c))
        rng.shuffle(subs)
        en_comps = [c for (_, c) in en_views if c]
        sub_filter = rand_filter(rng, en_comps, 2) if en_comps and rng.random() < 0.5 else ("none",)
        # the filter may only mention components present in entry views; identifier view filter needs
        # an identifier in the entry views
        def ok(f):
            t = f[0]
            if t == "view" and f[1] == K_ID:
                return any(k == K_ID for (k, _) in en_views)
            if t in ("not",):
                return ok(f[1])
            if t in ("and", "or"):
                return ok(f[1]) and ok(f[2])
            return True
        if not ok(sub_filter):
            sub_filter = ("none",)
        # a `&mut C` view used as filter needs a mutable super view of C
        sup_kind = {c: k for (k, c) in en_views if c}
        def fix(f):
            t = f[0]
            if t == "view":
                if f[1] == K_MUT and sup_kind.get(f[2]) not in (K_MUT, K_OPTMUT):
                    return ("view", K_REF, f[2])
                return f
            if t == "views":
                return ("views", [((K_REF if (k == K_MUT and sup_kind.get(c) not in (K_MUT, K_OPTMUT)) else k), c) for (k, c) in f[1]])
            if t == "not":
                return ("not", fix(f[1]))
            if t in ("and", "or"):
                return (t, fix(f[1]), fix(f[2]))
            return f
        sub_filter = fix(sub_filter)
        it_filter = rand_filter(rng, comps, 2) if rng.random() < 0.4 else ("none",)
        out.append((it_views, it_filter, en_views, subs, sub_filter))
    return out


# Request orders for which `World::view_resources` does not compile in brood 0.9.1 (trait resolution
# of the canonical containment fails); found by compiling all 60 permutations of 2-4 resources.
# They cannot be simulated; recorded in DESIGN.md as an observation outside the run-time properties.
UNCOMPILABLE_RESOURCE_ORDERS = {tuple(x.split()) for x in (
    "P0 P2 P3 P1;P0 P3 P1 P2;P1 P2 P0;P1 P2 P0 P3;P1 P2 P3 P0;P1 P3 P0;P1 P3 P0 P2;P1 P3 P2 P0;P2 P0 P1;P2 P0 P1 P3;"
    "P2 P0 P3 P1;P2 P1 P3 P0;P2 P3 P0;P2 P3 P0 P1;P2 P3 P1;P2 P3 P1 P0;P3 P0 P1;P3 P0 P1 P2;P3 P0 P2;P3 P0 P2 P1;"
    "P3 P1 P0 P2;P3 P1 P2;P3 P1 P2 P0;P3 P2 P0 P1").split(";")}


def gen_resource_views(rng):
    import itertools
    out = [[]]
    for k in range(1, len(RESOURCES) + 1):
        for perm in itertools.permutations(RESOURCES, k):
            if perm in UNCOMPILABLE_RESOURCE_ORDERS:
                continue
            out.append([(rng.choice([K_REF, K_MUT]), r) for r in perm])
    return out


def all_masks(n):
    return list(range(1 << n))


def mask_comps(mask, comps):
    return [c for i, c in enumerate(comps) if mask >> i & 1]


def main():
    global RESOURCES
    reg = sys.argv[1]
    if reg == "r8":
        # The 8-component registry runs on worlds WITHOUT resources (`World::new()`), the most
        # common configuration in user code.
        RESOURCES = []
    out_path = sys.argv[2]
    seed = int(sys.argv[3]) if len(sys.argv) > 3 else 20260926
    rng = random.Random(f"{reg}-{seed}")
    comps = REGISTRIES[reg]
    nc = len(comps)
    scale = {"r7": 1.0, "r8": 0.7, "r9": 0.6}.get(reg, 0.6)

    # insert sites
    if nc == 0:
        masks = [0]
    elif nc <= 7:
        masks = all_masks(nc)
    else:
        masks = [0] + [1 << i for i in range(nc)] + [(1 << nc) - 1]
        masks += [(1 << i) | (1 << j) for i in range(nc) for j in range(i + 1, nc)]
        while len(masks) < 150:
            m = rng.randrange(1 << nc)
            if m not in masks:
                masks.append(m)
    insert_sites = [(m, mask_comps(m, comps)) for m in masks]
    for _ in range(int(60 * scale) if nc >= 2 else 0):
        m = rng.choice([x for x in masks if bin(x).count("1") >= 2])
        order = mask_comps(m, comps)
        canon = order[:]
        while order == canon:
            rng.shuffle(order)
        insert_sites.append((m, order))

    ext_masks = [0] + [1 << i for i in range(nc)] + ([(1 << nc) - 1] if nc else [])
    while nc and len(ext_masks) < int(40 * scale):
        m = rng.randrange(1 << nc)
        if m not in ext_masks:
            ext_masks.append(m)
    extend_sites = []
    for m in ext_masks:
        order = mask_comps(m, comps)
        if len(order) >= 2 and rng.random() < 0.5:
            rng.shuffle(order)
        extend_sites.append((m, order))
    cloned_sites = []
    for m in rng.sample(ext_masks, min(len(ext_masks), int(14 * scale))):
        order = mask_comps(m, comps)
        rng.shuffle(order)
        cloned_sites.append((m, order))
    if not any(m == 0 for (m, _) in cloned_sites):
        cloned_sites.append((0, []))
    rows_sites = []  # entities!((..),(..)) explicit rows
    for nrows in ((1, 2, 3) if nc else ()):
        for _ in range(2):
            m = rng.choice([x for x in ext_masks if x != 0])
            order = mask_comps(m, comps)
            rng.shuffle(order)
            rows_sites.append((m, order, nrows))
    reserve_sites = []
    for m in rng.sample(ext_masks, min(len(ext_masks), int(20 * scale))):
        order = mask_comps(m, comps)
        rng.shuffle(order)
        reserve_sites.append((m, order))

    queries = gen_queries(rng, comps, int(110 * scale))
    entry_queries = gen_queries(rng, comps, int(30 * scale))[: int(70 * scale) + 30]
    # entry queries: keep a diverse subset
    rng.shuffle(entry_queries)
    entry_queries = entry_queries[: int(70 * scale)]
    entries_queries = gen_entries_queries(rng, comps, int(48 * scale))
    # Same resource-view sites for every registry (resources do not depend on the registry).
    resource_views = gen_resource_views(random.Random(f"r7-{seed}-res"))

    o = []
    w = o.append
    w(f"// GENERATED by gen/gen_world.py {reg} seed={seed}. Do not edit.")
    w("#![allow(unused_variables, unused_mut, unused_imports, clippy::all)]")
    w("use brood::{entities, entities::Batch, entity, query::{filter, result, Views}, resources, Entity, Query, Registry, Resources, World};")
    w("use simcore::zoo::*;")
    w("use crate::obs::*;")
    w("use crate::desc::*;")
    w(f"pub const NAME: &str = \"{reg}\";")
    w(f"pub const NC: usize = {nc};")
    w("pub type Reg = Registry!(" + ", ".join(comps) + ");")
    w(f"pub const NRES: usize = {len(RESOURCES)};")
    w("pub type Res = Resources!(" + ", ".join(RESOURCES) + ");")
    w("pub type Wd = World<Reg, Res>;")
    w("")
    w("pub fn new_world(vals: [u64; 4], rec: &mut [(u64, u64); 4]) -> Wd {")
    for i, r in enumerate(RESOURCES):
        w(f"    let r{i} = <{r} as Tracked>::make(vals[{i}]); rec[{i}] = (r{i}.serial(), r{i}.val());")
    if RESOURCES:
        w("    World::with_resources(resources!(" + ", ".join(f"r{i}" for i in range(len(RESOURCES))) + "))")
    else:
        w("    // Both ways of obtaining a world without resources.")
        w("    if vals[0] & 1 == 0 { World::new() } else { <Wd as Default>::default() }")
    w("}")
    w("")
    w("pub fn read_resources(w: &Wd) -> Result<[(u64, u64); 4], String> {")
    w("    let mut out = [(0u64, 0u64); 4];")
    for i, r in enumerate(RESOURCES):
        w(f"    {{ let r = w.get::<{r}, _>(); r.integrity()?; out[{i}] = (r.serial(), r.val()); }}")
    w("    Ok(out)")
    w("}")
    w("")
    w("pub fn get_mut_resource(w: &mut Wd, which: usize, salt: u64) -> Result<(u64, u64, u64), String> {")
    w("    match which {")
    for i, r in enumerate(RESOURCES):
        w(f"        {i} => {{ let r = w.get_mut::<{r}, _>(); r.integrity()?; let old = r.val(); let nv = <{r} as Tracked>::norm(write_val(old, salt, {16 + i})); r.set_val(nv); Ok((r.serial(), old, nv)) }}")
    w("        _ => unreachable!(),")
    w("    }")
    w("}")
    w("")

    def site_table(name, sites):
        w(f"pub static {name}: &[(u16, &[u8])] = &[")
        for s in sites:
            m, order = s[0], s[1]
            w(f"    ({m}, &[" + ", ".join(str(COMP_IX[c]) for c in order) + "]),")
        w("];")

    site_table("INSERT_SITES", insert_sites)
    w("pub fn insert(w: &mut Wd, site: usize, val: &dyn Fn(u8) -> u64, rec: &mut CompRec) -> entity::Identifier {")
    w("    match site {")
    for i, (m, order) in enumerate(insert_sites):
        lets = " ".join(
            f"let c{j} = <{c} as Tracked>::make(val({COMP_IX[c]})); rec.set(&c{j});" for j, c in enumerate(order))
        args = ", ".join(f"c{j}" for j in range(len(order)))
        w(f"        {i} => {{ {lets} w.insert(entity!({args})) }}")
    w("        _ => unreachable!(),")
    w("    }")
    w("}")
    w("")
    site_table("EXTEND_SITES", extend_sites)
    w("pub fn extend(w: &mut Wd, site: usize, n: usize, extra: usize, val: &dyn Fn(u8, usize) -> u64, rec: &mut Vec<CompRec>) -> Vec<entity::Identifier> {")
    w("    match site {")
    for i, (m, order) in enumerate(extend_sites):
        body = []
        for j, c in enumerate(order):
            body.append(
                f"let mut v{j}: Vec<{c}> = Vec::with_capacity(n + extra); for r in 0..n {{ let c = <{c} as Tracked>::make(val({COMP_IX[c]}, r)); rec[r].set(&c); v{j}.push(c); }}")
        nest = "entities::Null"
        for j in reversed(range(len(order))):
            nest = f"(v{j}, {nest})"
        if order:
            w(f"        {i} => {{ {' '.join(body)} w.extend(Batch::new({nest})) }}")
        else:
            w(f"        {i} => {{ w.extend(Batch::new(entities::Null)) }}")
    w("        _ => unreachable!(),")
    w("    }")
    w("}")
    w("")
    w("/// `Batch::new` on columns of which one (`bad_col`, modulo the column count) has `bad_len` instead of `n`")
    w("/// elements. The safe constructor has to refuse this by panicking.")
    w("pub fn extend_ragged(w: &mut Wd, site: usize, n: usize, bad_col: usize, bad_len: usize, val: &dyn Fn(u8, usize) -> u64) -> Vec<entity::Identifier> {")
    w("    match site {")
    for i, (m, order) in enumerate(extend_sites):
        if len(order) < 2:
            w(f"        {i} => Vec::new(),")
            continue
        body = []
        for j, c in enumerate(order):
            body.append(
                f"let l{j} = if bad_col % {len(order)} == {j} {{ bad_len }} else {{ n }}; let mut v{j}: Vec<{c}> = Vec::with_capacity(l{j}); for r in 0..l{j} {{ v{j}.push(<{c} as Tracked>::make(val({COMP_IX[c]}, r))); }}")
        nest = "entities::Null"
        for j in reversed(range(len(order))):
            nest = f"(v{j}, {nest})"
        w(f"        {i} => {{ {' '.join(body)} w.extend(Batch::new({nest})) }}")
    w("        _ => unreachable!(),")
    w("    }")
    w("}")
    w("")
    site_table("CLONED_SITES", cloned_sites)
    w("pub fn extend_cloned(w: &mut Wd, site: usize, n: usize, val: &dyn Fn(u8) -> u64) -> Vec<entity::Identifier> {")
    w("    match site {")
    for i, (m, order) in enumerate(cloned_sites):
        args = ", ".join(f"<{c} as Tracked>::make(val({COMP_IX[c]}))" for c in order)
        w(f"        {i} => {{ w.extend(entities!(({args}); n)) }}")
    w("        _ => unreachable!(),")
    w("    }")
    w("}")
    w("")
    w("pub static ROWS_SITES: &[(u16, &[u8], usize)] = &[")
    for (m, order, nrows) in rows_sites:
        w(f"    ({m}, &[" + ", ".join(str(COMP_IX[c]) for c in order) + f"], {nrows}),")
    w("];")
    w("pub fn extend_rows(w: &mut Wd, site: usize, val: &dyn Fn(u8, usize) -> u64, rec: &mut Vec<CompRec>) -> Vec<entity::Identifier> {")
    w("    match site {")
    for i, (m, order, nrows) in enumerate(rows_sites):
        lets = []
        rows = []
        for r in range(nrows):
            names = []
            for j, c in enumerate(order):
                lets.append(f"let c{r}_{j} = <{c} as Tracked>::make(val({COMP_IX[c]}, {r})); rec[{r}].set(&c{r}_{j});")
                names.append(f"c{r}_{j}")
            rows.append("(" + ", ".join(names) + ")")
        w(f"        {i} => {{ {' '.join(lets)} w.extend(entities!({', '.join(rows)})) }}")
    w("        _ => unreachable!(),")
    w("    }")
    w("}")
    w("")
    site_table("RESERVE_SITES", reserve_sites)
    w("pub fn reserve(w: &mut Wd, site: usize, n: usize) {")
    w("    match site {")
    for i, (m, order) in enumerate(reserve_sites):
        w(f"        {i} => w.reserve::<Entity!({', '.join(order)}), _>(n),")
    w("        _ => unreachable!(),")
    w("    }")
    w("}")
    w("")
    # entry add / remove, single and multi-step on one handle
    w("pub fn entry_steps(w: &mut Wd, id: entity::Identifier, steps: &[(bool, u8, u64)], rec: &mut Vec<Option<(u64, u64)>>) -> bool {")
    w("    let Some(mut e) = w.entry(id) else { return false };")
    w("    // A caller may catch a panic coming out of one call and go on using the same handle: the")
    w("    // remaining steps run on it, then the first panic is passed on.")
    w("    let mut pending: Option<Box<dyn std::any::Any + Send>> = None;")
    w("    for (add, comp, val) in steps.iter().copied() {")
    w("        let r = std::panic::catch_unwind(std::panic::AssertUnwindSafe(|| match (add, comp) {")
    for c in comps:
        ix = COMP_IX[c]
        w(f"            (true, {ix}) => {{ let c = <{c} as Tracked>::make(val); rec.push(Some((c.serial(), c.val()))); e.add(c); }}")
        w(f"            (false, {ix}) => {{ rec.push(None); e.remove::<{c}, _>(); }}")
    w("            _ => unreachable!(),")
    w("        }));")
    w("        if let Err(p) = r { if pending.is_none() { pending = Some(p); } }")
    w("    }")
    w("    if let Some(p) = pending { std::panic::resume_unwind(p); }")
    w("    true")
    w("}")
    w("")
    full = [(K_ID, None)] + [(K_OPT, c) for c in comps]
    w("pub fn extract(w: &mut Wd, out: &mut Vec<Rec>) -> Result<usize, String> {")
    w(f"    let res = w.query(Query::<{views_ty(full)}>::new());")
    w("    drive(res.iter, MODE_NEXT, 0, |item| { let mut r = Rec::new(None); item.obs(&mut r); out.push(r); })")
    w("}")
    w("")

    def qdesc(views, f):
        vs = ", ".join(f"({k}, {COMP_IX.get(c, 255)})" for (k, c) in views)
        return f"QDesc {{ views: &[{vs}], filter: {filt_desc(f)} }}"

    w("pub static QUERIES: &[QDesc] = &[")
    for (views, f) in queries:
        w(f"    {qdesc(views, f)},")
    w("];")
    w("pub fn query(w: &mut Wd, q: usize, mode: u8, split: usize, salt: Option<u64>, out: &mut Vec<Rec>) -> Result<usize, String> {")
    w("    match q {")
    for i, (views, f) in enumerate(queries):
        w(f"        {i} => {{ let res = w.query(Query::<{views_ty(views)}, {filt_ty(f)}>::new()); drive(res.iter, mode, split, |item| {{ let mut r = Rec::new(salt); item.obs(&mut r); out.push(r); }}) }}")
    w("        _ => unreachable!(),")
    w("    }")
    w("}")
    w("")
    w("pub static ENTRY_QUERIES: &[QDesc] = &[")
    for (views, f) in entry_queries:
        w(f"    {qdesc(views, f)},")
    w("];")
    w("/// None = no such entity; Some(None) = entity does not match; Some(Some(rec)) = matched.")
    w("pub fn entry_query(w: &mut Wd, id: entity::Identifier, q: usize, salt: Option<u64>) -> Option<Option<Rec>> {")
    w("    let mut e = w.entry(id)?;")
    w("    match q {")
    for i, (views, f) in enumerate(entry_queries):
        w(f"        {i} => Some(e.query(Query::<{views_ty(views)}, {filt_ty(f)}>::new()).map(|item| {{ let mut r = Rec::new(salt); item.obs(&mut r); r }})),")
    w("        _ => unreachable!(),")
    w("    }")
    w("}")
    w("")
    w("pub static ENTRIES_QUERIES: &[EDesc] = &[")
    for (itv, itf, env, subs, subf) in entries_queries:
        def vl(vs):
            return "&[" + ", ".join(f"({k}, {COMP_IX.get(c, 255)})" for (k, c) in vs) + "]"
        w(f"    EDesc {{ iter: QDesc {{ views: {vl(itv)}, filter: {filt_desc(itf)} }}, entry_views: {vl(env)}, sub: QDesc {{ views: {vl(subs)}, filter: {filt_desc(subf)} }} }},")
    w("];")
    w("/// For every iterated item (up to `limit`), query `targets[i % len]` through the entries handle.")
    w("pub fn entries_query(w: &mut Wd, q: usize, targets: &[entity::Identifier], limit: usize, salt: Option<u64>, iter_out: &mut Vec<Rec>, sub_out: &mut Vec<(usize, Option<Option<Rec>>)>) -> Result<usize, String> {")
    w("    match q {")
    for i, (itv, itf, env, subs, subf) in enumerate(entries_queries):
        w(f"        {i} => {{")
        w(f"            let mut res = w.query(Query::<{views_ty(itv)}, {filt_ty(itf)}, Views!(), {views_ty(env)}>::new());")
        w("            let mut n = 0usize;")
        w("            if targets.is_empty() || limit == 0 {")
        w("                for (t, id) in targets.iter().enumerate() {")
        w(f"                    let r = res.entries.entry(*id).map(|mut e| e.query(Query::<{views_ty(subs)}, {filt_ty(subf)}>::new()).map(|item| {{ let mut r = Rec::new(salt); item.obs(&mut r); r }}));")
        w("                    sub_out.push((t, r));")
        w("                }")
        w("            }")
        w("            for item in res.iter {")
        w("                let mut r = Rec::new(None); item.obs(&mut r); iter_out.push(r);")
        w("                if n < limit && !targets.is_empty() {")
        w("                    let t = n % targets.len();")
        w(f"                    let r = res.entries.entry(targets[t]).map(|mut e| e.query(Query::<{views_ty(subs)}, {filt_ty(subf)}>::new()).map(|item| {{ let mut r = Rec::new(salt); item.obs(&mut r); r }}));")
        w("                    sub_out.push((t, r));")
        w("                }")
        w("                n += 1;")
        w("            }")
        w("            Ok(n)")
        w("        }")
    w("        _ => unreachable!(),")
    w("    }")
    w("}")
    w("")
    w("pub static RESOURCE_VIEWS: &[&[(u8, u8)]] = &[")
    for vs in resource_views:
        w("    &[" + ", ".join(f"({k}, {RESOURCES.index(r)})" for (k, r) in vs) + "],")
    w("];")
    w("pub fn view_resources(w: &mut Wd, site: usize, salt: Option<u64>, rec: &mut Rec) {")
    w("    match site {")
    for i, vs in enumerate(resource_views):
        w(f"        {i} => {{ rec.write_salt = salt; let v = w.view_resources::<{views_ty(vs)}, _>(); v.obs(rec); }}")
    w("        _ => unreachable!(),")
    w("    }")
    w("}")
    w("/// The same resource views requested through a query (`Result::resources`), which is how systems get them;")
    w("/// `how` 0: next to an identifier iterator, otherwise next to entry views. Returns the number of iterated items.")
    w("pub fn query_resources(w: &mut Wd, site: usize, how: u8, salt: Option<u64>, rec: &mut Rec) -> usize {")
    w("    match (site, how) {")
    ev = f"Views!(Option<&{comps[0]}>)" if comps else "Views!()"
    for i, vs in enumerate(resource_views):
        w(f"        ({i}, 0) => {{ rec.write_salt = salt; let res = w.query(Query::<Views!(entity::Identifier), filter::None, {views_ty(vs)}, Views!()>::new()); res.resources.obs(rec); res.iter.count() }}")
        w(f"        ({i}, _) => {{ rec.write_salt = salt; let res = w.query(Query::<Views!(), filter::None, {views_ty(vs)}, {ev}>::new()); res.resources.obs(rec); res.iter.count() }}")
    w("        _ => unreachable!(),")
    w("    }")
    w("}")
    open(out_path, "w").write("\n".join(o) + "\n")
    print(f"{reg}: insert={len(insert_sites)} extend={len(extend_sites)} cloned={len(cloned_sites)} rows={len(rows_sites)} "
          f"reserve={len(reserve_sites)} queries={len(queries)} entry_queries={len(entry_queries)} "
          f"entries_queries={len(entries_queries)} resource_views={len(resource_views)}")


if __name__ == "__main__":
    main()
