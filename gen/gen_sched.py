#!/usr/bin/env python3
"""Generate the schedule catalogue of the schedule simulator (E2).

brood decides staging by trait resolution at compile time, so every schedule the simulator can
run has to exist as Rust source. This script emits a set of small binary crates
(harness/schedsim-NN), each holding a few schedules, so that the (slow) type-level staging is
compiled in parallel.

usage: gen_sched.py <harness dir> <number of bins> <schedules per bin> [seed]
"""
import os
import random
import sys

COMPS = ["A", "Z", "H", "O", "W"]
RES = ["P0", "P1", "P2", "P3"]
K_REF, K_MUT, K_OPT, K_OPTMUT, K_ID = 0, 1, 2, 3, 4


def view_ty(kind, name, lt="'a"):
    if kind == K_REF:
        return f"&{lt} {name}"
    if kind == K_MUT:
        return f"&{lt} mut {name}"
    if kind == K_OPT:
        return f"Option<&{lt} {name}>"
    if kind == K_OPTMUT:
        return f"Option<&{lt} mut {name}>"
    return "entity::Identifier"


def views_ty(views, names, lt="'a"):
    return "Views!(" + ", ".join(view_ty(k, names[c] if k != K_ID else None, lt) for (k, c) in views) + ")"


def filt_ty(f):
    t = f[0]
    if t == "none":
        return "filter::None"
    if t == "has":
        return f"filter::Has<{COMPS[f[1]]}>"
    if t == "not":
        return f"filter::Not<{filt_ty(f[1])}>"
    if t == "and":
        return f"filter::And<{filt_ty(f[1])}, {filt_ty(f[2])}>"
    return f"filter::Or<{filt_ty(f[1])}, {filt_ty(f[2])}>"


def writes(k):
    return k in (K_MUT, K_OPTMUT)


class Sys:
    def __init__(self, par, views, filt, res, entry):
        self.par, self.views, self.filt, self.res, self.entry = par, views, filt, res, entry

    def touches(self):
        return [(c, writes(k)) for (k, c) in self.views + self.entry if k != K_ID]


def conflicts(a, b):
    for (c1, w1) in a.touches():
        for (c2, w2) in b.touches():
            if c1 == c2 and (w1 or w2):
                return True
    for (k1, r1) in a.res:
        for (k2, r2) in b.res:
            if r1 == r2 and (writes(k1) or writes(k2)):
                return True
    return False


def rand_filter(rng, depth=2):
    if depth == 0 or rng.random() < 0.45:
        if rng.random() < 0.3:
            return ("none",)
        return ("has", rng.randrange(len(COMPS)))
    r = rng.random()
    if r < 0.35:
        return ("not", rand_filter(rng, depth - 1))
    if r < 0.7:
        return ("and", rand_filter(rng, depth - 1), rand_filter(rng, depth - 1))
    return ("or", rand_filter(rng, depth - 1), rand_filter(rng, depth - 1))


def rand_sys(rng, bias_comp=None):
    nv = rng.choice([0, 1, 1, 2, 2, 3])
    cs = rng.sample(range(len(COMPS)), nv)
    if bias_comp is not None and bias_comp not in cs and rng.random() < 0.7:
        cs = ([bias_comp] + cs)[: max(1, nv)]
    views = [(rng.choice([K_REF, K_MUT, K_OPT, K_OPTMUT]), c) for c in cs]
    if rng.random() < 0.3:
        views.insert(rng.randint(0, len(views)), (K_ID, None))
    filt = rand_filter(rng) if rng.random() < 0.5 else ("none",)
    nr = rng.choice([0, 0, 0, 1, 1, 2])
    res = [(rng.choice([K_REF, K_MUT]), r) for r in rng.sample(range(len(RES)), nr)]
    entry = []
    if rng.random() < 0.35:
        ne = rng.choice([1, 1, 2])
        viewed = {c: k for (k, c) in views if k != K_ID}
        cand = list(range(len(COMPS)))
        rng.shuffle(cand)
        for c in cand:
            if len(entry) >= ne:
                break
            if c in viewed:
                if writes(viewed[c]):
                    continue
                entry.append((rng.choice([K_REF, K_OPT]), c))
            else:
                entry.append((rng.choice([K_REF, K_MUT, K_OPT, K_OPTMUT]), c))
    par = rng.random() < 0.35
    return Sys(par, views, filt, res, entry)


def coverage_schedules(rng):
    """Hand-shaped schedules that reach specific decision cells."""
    out = []
    kinds = [K_REF, K_MUT, K_OPT, K_OPTMUT]
    # every (earlier kind, later kind) pair on a shared component, in views/views position
    pairs = [(a, b) for a in kinds for b in kinds]
    rng.shuffle(pairs)
    for i in range(0, len(pairs), 2):
        (a1, b1), (a2, b2) = pairs[i], pairs[(i + 1) % len(pairs)]
        c1, c2 = rng.sample(range(len(COMPS)), 2)
        out.append(("kindpair", [Sys(False, [(a1, c1)], ("none",), [], []), Sys(rng.random() < 0.5, [(b1, c1)], ("none",), [], []),
                                 Sys(False, [(a2, c2)], ("none",), [], []), Sys(False, [(b2, c2)], ("none",), [], [])]))
    # views/entry and entry/entry positions
    for (a, b) in [(K_MUT, K_REF), (K_REF, K_MUT), (K_REF, K_REF), (K_OPTMUT, K_OPT), (K_OPT, K_OPT), (K_MUT, K_MUT)]:
        c, d = rng.sample(range(len(COMPS)), 2)
        out.append(("viewentry", [Sys(False, [(a, c)], ("none",), [], []), Sys(rng.random() < 0.4, [(K_ID, None)], ("none",), [], [(b, c)]),
                                  Sys(rng.random() < 0.4, [(K_REF, d)], ("none",), [], [(a, c)])]))
    # one task viewing a component immutably through both its views and its entry views, next to
    # other readers of that component: nothing conflicts, everything must share a stage
    for (a, b) in [(K_REF, K_REF), (K_REF, K_OPT), (K_OPT, K_REF), (K_OPT, K_OPT)]:
        c, d = rng.sample(range(len(COMPS)), 2)
        tasks = [Sys(False, [(a, c)], ("none",), [], [(b, c)]), Sys(rng.random() < 0.5, [(K_REF, c)], ("none",), [], []),
                 Sys(False, [(K_ID, None), (K_OPT, c)], ("none",), [], [(K_REF, c)]), Sys(False, [(K_MUT, d)], ("none",), [], [(K_OPT, c)])]
        rng.shuffle(tasks)
        out.append(("sharedimmutable", tasks))
    # identifier views never conflict, wherever the task stands
    for _ in range(2):
        c, d, e = rng.sample(range(len(COMPS)), 3)
        out.append(("identifier", [Sys(False, [(K_MUT, c)], ("none",), [], []), Sys(rng.random() < 0.5, [(K_ID, None), (K_MUT, d)], ("none",), [], []),
                                   Sys(False, [(K_ID, None)], ("none",), [], [(K_MUT, e)]), Sys(False, [(K_REF, c), (K_ID, None)], ("none",), [], [])]))
    # immutable pairs in entry/entry and entry/views positions
    for (a, b) in [(K_REF, K_OPT), (K_OPT, K_REF)]:
        c, d, e = rng.sample(range(len(COMPS)), 3)
        out.append(("entryentry", [Sys(rng.random() < 0.5, [(K_MUT, d)], ("none",), [], [(a, c)]), Sys(rng.random() < 0.5, [(K_MUT, e)], ("none",), [], [(b, c)]),
                                   Sys(rng.random() < 0.5, [(b, c)], ("none",), [], [])]))
    # a (par) system whose entry views reach tables that none of its query views match
    for par in (True, False):
        c, d, e = rng.sample(range(len(COMPS)), 3)
        out.append(("entryonly", [Sys(par, [(K_MUT, d)], ("has", e), [], [(K_MUT, c)]), Sys(False, [(K_REF, c)], ("not", ("has", d)), [], []),
                                  Sys(not par, [(K_OPTMUT, c)], ("none",), [], [])]))
    # resources
    for (a, b) in [(K_MUT, K_REF), (K_REF, K_REF), (K_MUT, K_MUT), (K_REF, K_MUT)]:
        r = rng.randrange(len(RES))
        c, d = rng.sample(range(len(COMPS)), 2)
        out.append(("resources", [Sys(False, [(K_MUT, c)], ("none",), [(a, r)], []), Sys(rng.random() < 0.5, [(K_MUT, d)], ("none",), [(b, r)], []),
                                  Sys(False, [(K_REF, c)], ("none",), [(K_REF, r)], [])]))
    # a next-stage task accepted early on an archetype of the running stage, then a later candidate
    # that conflicts with the running stage exactly there (three disjoint mutable sets in one table)
    for par in (False, True):
        a, b, c = rng.sample(range(len(COMPS)), 3)
        out.append(("addonthenconflict", [Sys(False, [(K_MUT, a), (K_MUT, c)], ("none",), [], []), Sys(False, [(K_MUT, a)], ("none",), [], []),
                                          Sys(par, [(K_MUT, b)], ("none",), [], []), Sys(False, [(K_MUT, c)], ("none",), [], [])]))
    # a resource held by a task that is not the last of its stage, wanted by the next stage
    for (a, b, holder) in [(K_MUT, K_MUT, 0), (K_MUT, K_REF, 1), (K_REF, K_MUT, 0)]:
        r = rng.randrange(len(RES))
        c0, c1, c2, c3 = rng.sample(range(len(COMPS)), 4)
        first = [Sys(False, [(K_MUT, c0)], ("none",), [], []), Sys(rng.random() < 0.4, [(K_MUT, c1)], ("none",), [], []), Sys(False, [(K_REF, c3)], ("none",), [], [])]
        first[holder].res = [(a, r)]
        out.append(("resourceheld", first + [Sys(False, [(K_MUT, c2)], ("none",), [(b, r)], [])]))
    # statically conflicting, disjoint by filter (the run-time add-on path)
    for _ in range(4):
        c, f = rng.sample(range(len(COMPS)), 2)
        out.append(("filterdisjoint", [Sys(False, [(K_MUT, c)], ("has", f), [], []), Sys(rng.random() < 0.5, [(K_MUT, c)], ("not", ("has", f)), [], []),
                                       Sys(False, [(K_REF, c)], ("none",), [], [])]))
    # third task conflicts with only one of the first two
    for _ in range(6):
        a, b = rng.sample(range(len(COMPS)), 2)
        order = [Sys(False, [(K_MUT, a)], ("none",), [], []), Sys(rng.random() < 0.3, [(K_REF, b)], ("none",), [], [])]
        rng.shuffle(order)
        third = Sys(rng.random() < 0.3, [(K_MUT, b)], ("none",), [], [])
        extra = [rand_sys(rng)] if rng.random() < 0.5 else []
        out.append(("thirdconflicts", order + [third] + extra))
    # long independent group, and fully serial chain
    out.append(("independent", [Sys(i % 2 == 1, [(K_MUT, i)], ("none",), [], []) for i in range(5)]))
    out.append(("chain", [Sys(False, [(K_MUT, 0)], ("none",), [(K_MUT, 0)], []) for _ in range(4)]))
    out.append(("two", [Sys(True, [(K_MUT, 0), (K_REF, 2)], ("none",), [], []), Sys(True, [(K_MUT, 3), (K_REF, 2)], ("none",), [], [])]))
    return out


def light_sys(rng):
    """A small task: one or two views, mostly mutable, shallow filter, sometimes a resource or an entry view."""
    nv = rng.choice([1, 1, 1, 2])
    cs = rng.sample(range(len(COMPS)), nv)
    views = [(rng.choice([K_MUT, K_MUT, K_MUT, K_REF, K_OPTMUT, K_OPT]), c) for c in cs]
    if rng.random() < 0.15:
        views.insert(rng.randint(0, len(views)), (K_ID, None))
    filt = ("none",)
    r = rng.random()
    if r < 0.2:
        filt = ("has", rng.randrange(len(COMPS)))
    elif r < 0.4:
        filt = ("not", ("has", rng.randrange(len(COMPS))))
    res = []
    if rng.random() < 0.2:
        res = [(rng.choice([K_REF, K_MUT]), rng.randrange(len(RES)))]
    entry = []
    if rng.random() < 0.2:
        viewed = {c for (k, c) in views if k != K_ID}
        cand = [c for c in range(len(COMPS)) if c not in viewed]
        if cand:
            entry = [(rng.choice([K_REF, K_MUT, K_OPT, K_OPTMUT]), rng.choice(cand))]
    return Sys(rng.random() < 0.25, views, filt, res, entry)


def greedy_groups(tasks):
    groups = []
    for i, t in enumerate(tasks):
        if groups and all(not conflicts(tasks[j], t) for j in groups[-1]):
            groups[-1].append(i)
        else:
            groups.append([i])
    return groups


def staged_schedules(rng, count):
    """Schedules with two adjacent wide stages (rejection sampling over small random tasks): the
    shapes in which several candidates of the next stage are accepted or refused one after another
    while the running stage holds claims of several tasks."""
    out = []
    while len(out) < count:
        nt = rng.choice([5, 5, 6])
        tasks = [light_sys(rng) for _ in range(nt)]
        g = greedy_groups(tasks)
        ok = any(len(g[i]) >= 2 and len(g[i + 1]) >= 2 and len(g[i]) + len(g[i + 1]) >= 5 for i in range(len(g) - 1)) or \
            any(len(g[i]) >= 1 and len(g[i + 1]) >= 3 and i + 2 < len(g) for i in range(len(g) - 1))
        if ok:
            out.append(("staged", tasks))
    return out


def zero_view_schedules(rng):
    """Tasks without component views: resource-only systems, entry-views-only systems, identifier-only
    systems - next to ordinary ones. They match every table (or none of the columns), and their
    view lists are zero-sized types."""
    out = []
    c, d, e = rng.sample(range(len(COMPS)), 3)
    r0, r1, r2 = rng.sample(range(len(RES)), 3)
    # three independent tasks, two of them resource-only: one group
    out.append(("zeroview", [Sys(False, [], ("none",), [(K_MUT, r0)], []), Sys(False, [], ("none",), [(K_MUT, r1)], []), Sys(False, [(K_MUT, c)], ("none",), [], [])]))
    # a resource-only writer, then an ordinary task reading that resource, then another resource-only task
    out.append(("zeroview", [Sys(False, [(K_MUT, d)], ("none",), [], []), Sys(False, [], ("none",), [(K_MUT, r0)], []), Sys(True, [(K_MUT, c)], ("none",), [(K_REF, r0)], []),
                             Sys(False, [], ("none",), [(K_REF, r0), (K_MUT, r2)], [])]))
    # entry-views-only tasks next to tasks iterating the same / another component
    out.append(("zeroview", [Sys(False, [], ("none",), [], [(K_MUT, c)]), Sys(False, [(K_MUT, d)], ("none",), [], []), Sys(False, [(K_REF, c)], ("none",), [], []),
                             Sys(False, [], ("none",), [], [(K_REF, c)])]))
    # identifier-only and completely empty tasks (own state only)
    out.append(("zeroview", [Sys(False, [(K_ID, None)], ("none",), [], []), Sys(False, [], ("none",), [], []), Sys(True, [(K_MUT, e)], ("none",), [], []),
                             Sys(False, [], ("has", c), [(K_REF, r1)], [])]))
    # a filtered zero-view task and a ParSystem without views
    out.append(("zeroview", [Sys(True, [], ("none",), [(K_MUT, r1)], []), Sys(False, [(K_OPTMUT, c)], ("none",), [], []), Sys(False, [], ("not", ("has", d)), [], [(K_OPTMUT, e)])]))
    out.append(("zeroview", [Sys(False, [], ("none",), [(K_MUT, r2)], []), Sys(False, [], ("none",), [(K_MUT, r2)], []), Sys(False, [(K_ID, None)], ("none",), [(K_REF, r2)], [(K_REF, d)])]))
    return out


def shared_then_writer_schedules(rng):
    """A task viewing a component immutably through both its views and its entry views, next to a
    writer of exactly that component (before and after it): the merged claim of the first task must
    still cover the component."""
    out = []
    for (a, b) in [(K_REF, K_REF), (K_REF, K_OPT), (K_OPT, K_REF), (K_OPT, K_OPT)]:
        for writer_first in (False, True):
            c, d = rng.sample(range(len(COMPS)), 2)
            while COMPS[c] == "Z":
                c, d = rng.sample(range(len(COMPS)), 2)
            both = Sys(False, [(K_ID, None), (a, c)] if rng.random() < 0.5 else [(a, c)], ("none",), [], [(b, c)])
            writer = Sys(rng.random() < 0.3, [(rng.choice([K_MUT, K_OPTMUT]), c)], ("none",), [], [])
            other = Sys(False, [(K_MUT, d)], ("none",), [], [])
            out.append(("sharedthenwriter", [writer, both, other] if writer_first else [both, writer, other]))
    return out


def addon_sequence_schedules(rng):
    """Two stages; the tasks of the second one are, in varying order, refused at run time (they really
    conflict with a task of the running stage, on tables the other candidates touch as well),
    accepted (statically conflicting but disjoint by filter, or independent), or refused because of
    a resource or an entry view. Whatever the bookkeeping does with a refused or accepted candidate
    must not change the verdict on the next one."""
    out = []

    def T(views, filt=("none",), res=(), entry=(), par=False):
        return Sys(par, list(views), filt, list(res), list(entry))

    for variant in (range(8, 12) if "--addonseq2" in sys.argv else range(8)):
        a, b, c, d, e = rng.sample(range(len(COMPS)), 5)
        # The contested components must carry data (a zero-sized one cannot show a wrong overlap).
        while COMPS[a] == "Z" or COMPS[b] == "Z":
            a, b, c, d, e = rng.sample(range(len(COMPS)), 5)
        r = rng.randrange(len(RES))
        s1_plain = [T([(K_MUT, a)]), T([(K_MUT, b)], ("has", c))]
        s1_filtered = [T([(K_MUT, a)], ("has", d)), T([(K_MUT, b)])]
        if variant == 0:
            tasks = s1_plain + [T([(K_REF, a)]), T([(K_MUT, b)], par=True)]
        elif variant == 1:
            # refused reader of b, then a writer of a restricted to tables that also hold b
            tasks = s1_plain + [T([(K_REF, b)]), T([(K_MUT, a)], ("has", b))]
        elif variant == 2:
            tasks = s1_plain + [T([(K_MUT, a)]), T([(K_MUT, e)]), T([(K_REF, b)])]
        elif variant == 3:
            tasks = s1_filtered + [T([(K_MUT, a)], ("not", ("has", d))), T([(K_REF, b)]), T([(K_MUT, c)])]
        elif variant == 4:
            tasks = s1_filtered + [T([(K_OPT, b)]), T([(K_OPTMUT, a)], ("not", ("has", d)))]
        elif variant == 5:
            tasks = s1_filtered + [T([(K_MUT, a)], ("not", ("has", d))), T([(K_MUT, e)], par=True), T([(K_MUT, b)], ("has", a))]
        elif variant == 6:
            tasks = s1_plain + [T([(K_REF, e)], entry=[(K_MUT, a)]), T([(K_REF, b)], ("has", a))]
        elif variant >= 8:
            # The second candidate conflicts with the running stage ONLY on tables which the first,
            # refused, candidate touched compatibly before it met its conflict: whatever was recorded
            # for the refused one must be undone exactly.
            # The running stage claims every table (an optional view matches all of them), so in a
            # crowded world it holds more than 16; its second task and the second candidate are
            # narrowed by filters to two tables resp. one table.
            s1 = [T([(K_OPTMUT, a)]), T([(K_MUT, b)], ("and", ("has", c), ("and", ("has", d), ("has", e))))]
            only_there = ("and", ("has", b), ("and", ("not", ("has", c)), ("and", ("has", d), ("has", e))))
            first = [T([(K_REF, b)]), T([(K_OPT, b)], ("has", b)), T([(K_ID, None)], entry=[(K_REF, b)]), T([(K_REF, b)])][variant - 8]
            second = T([(K_MUT, a)], only_there, par=(variant == 9))
            tasks = s1 + ([first, T([(K_ID, None)], ("has", d)), second] if variant == 11 else [first, second])
        else:
            s1 = [T([(K_MUT, a)], res=[(K_MUT, r)]), T([(K_MUT, b)])]
            tasks = s1 + [T([(K_MUT, c)], res=[(K_REF, r)]), T([(K_REF, b)]), T([(K_MUT, e)], res=[(K_MUT, r)])]
        out.append(("addonsequence", tasks))
    return out


def emit_system(w, name, task, salt, s):
    trait = "ParSystem" if s.par else "System"
    w(f"pub struct {name} {{ pub st: SysState }}")
    w(f"impl {trait} for {name} {{")
    w(f"    type Views<'a> = {views_ty(s.views, COMPS)};")
    w(f"    type Filter = {filt_ty(s.filt)};")
    w(f"    type ResourceViews<'a> = {views_ty(s.res, RES)};")
    w(f"    type EntryViews<'a> = {views_ty(s.entry, COMPS)};")
    w("    fn run<'a, R, S, I, E>(&mut self, mut qr: QResult<'a, R, S, I, Self::ResourceViews<'a>, Self::EntryViews<'a>, E>)")
    w("    where")
    w("        R: registry::ContainsViews<'a, Self::EntryViews<'a>, E>,")
    if s.par:
        w("        I: ParallelIterator<Item = Self::Views<'a>>,")
    else:
        w("        I: Iterator<Item = Self::Views<'a>>,")
    w("    {")
    w(f"        let ctx = begin({task}, {salt}u64, &mut self.st);")
    w("        let rsum = touch_resources(&ctx, qr.resources);")
    if s.par:
        w("        let acc = AtomicU64::new(0);")
        w("        qr.iter.for_each(|item| { touch_par_item(&ctx, rsum, item, &acc); yield_now(); });")
        w("        let mut fold = rsum.wrapping_add(acc.load(Ordering::Relaxed));")
    else:
        w("        let mut fold = rsum;")
        w("        for item in qr.iter { fold = fold.wrapping_add(touch_item(&ctx, rsum, item)); yield_now(); }")
    if s.entry:
        w("        for id in targets() {")
        w("            if let Some(mut e) = qr.entries.entry(id) {")
        w(f"                if let Some(v) = e.query(Query::<{views_ty(s.entry, COMPS)}, filter::None>::new()) {{ fold = fold.wrapping_add(touch_entry(&ctx, rsum, v)); }}")
        w("            }")
        w("            yield_now();")
        w("        }")
    else:
        w("        let _ = &mut qr.entries;")
    w("        end(ctx, &mut self.st, fold);")
    w("    }")
    w("}")


def desc_list(vs):
    return "&[" + ", ".join(f"({k}, {255 if c is None else c})" for (k, c) in vs) + "]"


def emit_bin(path, binname, schedules, seed):
    o = []
    w = o.append
    w(f"// GENERATED by gen/gen_sched.py seed={seed}. Do not edit.")
    w("#![allow(unused_variables, unused_mut, unused_imports, dead_code, clippy::all)]")
    w("use brood::{entity, query::{filter, Result as QResult, Views}, registry, system::{schedule, schedule::task, ParSystem, System}, Query};")
    w("use rayon::iter::ParallelIterator;")
    w("use schedcore::*;")
    w("use simcore::zoo::*;")
    w("use std::sync::atomic::{AtomicU64, Ordering};")
    w("")
    w("#[global_allocator]")
    w("static GLOBAL: simcore::arena::SimAlloc = simcore::arena::SimAlloc;")
    w("")
    nores_flags = []
    for si, (kind, systems) in enumerate(schedules):
        w(f"mod case{si} {{")
        w("    use super::*;")
        inner = []
        for ti, s in enumerate(systems):
            emit_system(lambda l: inner.append("    " + l), f"T{ti}", ti, (seed * 1000003 + si * 101 + ti * 7 + 11) & 0xFFFFFFFF, s)
        o.extend(inner)
        w("    pub static DESC: CaseDesc = CaseDesc {")
        w(f"        name: \"{binname}/{si}:{kind}\",")
        w("        systems: &[")
        for s in systems:
            w(f"            SysDesc {{ par: {'true' if s.par else 'false'}, views: {desc_list(s.views)}, res: {desc_list(s.res)}, entry: {desc_list(s.entry)} }},")
        w("        ],")
        w("    };")
        tasks = ", ".join(f"task::{'ParSystem' if s.par else 'System'}(T{ti} {{ st: SysState::default() }})" for ti, s in enumerate(systems))
        nores = all(not s.res for s in systems)
        for suffix, wty in (("", "Wd"), ("0", "Wd0")) if nores else (("", "Wd"),):
            w(f"    pub fn scheduled{suffix}(w: &mut {wty}, repeats: u32) -> Vec<SysState> {{")
            w(f"        let mut s = schedule!({tasks});")
            w("        for _ in 0..repeats { w.run_schedule(&mut s); }")
            acc = "s"
            states = []
            for ti in range(len(systems)):
                states.append(f"{acc}.0 .0.st")
                acc = f"{acc}.1"
            w(f"        vec![{', '.join(states)}]")
            w("    }")
            w(f"    pub fn sequential{suffix}(w: &mut {wty}, repeats: u32) -> Vec<SysState> {{")
            for ti, s in enumerate(systems):
                w(f"        let mut t{ti} = T{ti} {{ st: SysState::default() }};")
            w("        for _ in 0..repeats {")
            for ti, s in enumerate(systems):
                w(f"            w.{'run_par_system' if s.par else 'run_system'}(&mut t{ti});")
            w("        }")
            w(f"        vec![{', '.join(f't{ti}.st' for ti in range(len(systems)))}]")
            w("    }")
        nores_flags.append(nores)
        w("}")
        w("")
    w("fn main() {")
    w("    let cases = [")
    for si in range(len(schedules)):
        no_res = f"Some((case{si}::scheduled0, case{si}::sequential0))" if nores_flags[si] else "None"
        w(f"        Case {{ desc: &case{si}::DESC, scheduled: case{si}::scheduled, sequential: case{si}::sequential, no_resources: {no_res} }},")
    w("    ];")
    w(f"    main_with(\"{binname}\", &cases);")
    w("}")
    os.makedirs(os.path.join(path, "src"), exist_ok=True)
    open(os.path.join(path, "src", "main.rs"), "w").write("\n".join(o) + "\n")
    open(os.path.join(path, "Cargo.toml"), "w").write(f"""[package]
name = "{binname}"
version = "0.1.0"
edition = "2021"

[dependencies]
brood = {{ workspace = true }}
simcore = {{ path = "../simcore" }}
schedcore = {{ path = "../schedcore" }}
rayon = {{ workspace = true }}
""")


def main():
    """usage: gen_sched.py <harness dir> <bins> <schedules per bin> [seed] [--start N --random-only]"""
    args = [a for a in sys.argv[1:] if not a.startswith("--")]
    harness = args[0]
    nbins = int(args[1])
    per = int(args[2])
    seed = int(args[3]) if len(args) > 3 else 20260926
    start = int(sys.argv[sys.argv.index("--start") + 1]) if "--start" in sys.argv else 0
    random_only = "--random-only" in sys.argv
    rng = random.Random(f"sched-{seed}-{start}" if start else f"sched-{seed}")
    cov = [] if random_only else coverage_schedules(rng)
    scheds = list(cov)
    if "--staged" in sys.argv:
        scheds = staged_schedules(rng, nbins * per)
    if "--zeroview" in sys.argv:
        scheds = zero_view_schedules(rng)
    if "--shared" in sys.argv:
        scheds = shared_then_writer_schedules(rng)
    if "--addonseq" in sys.argv or "--addonseq2" in sys.argv:
        scheds = addon_sequence_schedules(rng)
    while len(scheds) < nbins * per:
        nt = rng.choice([2, 3, 3, 4, 4, 5, 6])
        bias = rng.randrange(len(COMPS))
        scheds.append(("random", [rand_sys(rng, bias) for _ in range(nt)]))
    chosen = scheds[: nbins * per]
    chosen.sort(key=lambda s: -len(s[1]))
    bins = [[] for _ in range(nbins)]
    for i, s in enumerate(chosen):
        bins[i % nbins].append(s)
    names = []
    for b, ss in enumerate(bins):
        name = f"schedsim-{start + b:02d}"
        emit_bin(os.path.join(harness, name), name, ss, seed)
        names.append(name)
    total_tasks = sum(len(s[1]) for ss in bins for s in ss)
    print(f"{len(names)} bins, {sum(len(b) for b in bins)} schedules ({len(cov)} coverage-shaped available), {total_tasks} tasks")
    print(" ".join(names))


if __name__ == "__main__":
    main()
