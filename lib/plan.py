"""Which simulator runs, with which profile and how many runs, decide each property."""

REAL_E1 = ["brood (all of it, with the read-only dump hook)", "hashbrown", "serde", "serde_json", "alloc::vec::Vec"]
STUB_E1 = ["global allocator (deterministic auditing arena at a fixed address)",
           "serde medium for the token encodings (serde_assert token vector in human-readable and compact mode)",
           "component/resource types (harness types whose Clone/Drop/PartialEq/Debug/Serialize/Deserialize consult the fault plan)"]

ASSUME_E1 = [
    "sampling: a clean batch is evidence, not proof",
    "brood is exercised through the harness component zoo (plain, zero-sized, boxed, 64-aligned, one-byte, Vec-owning, 16-aligned, and one without a destructor) and the generated call-site catalogues for a 7-component registry and, with smaller samples, a 10-component registry (two identifier bytes), a 9-component one, an 8-component one (no padding bits, run on a world without resources) and, for C01 C02 C06 C11 C13, the empty registry; for C01 C02 C03 C06 C10 C16 also a 72-component registry (nine identifier bytes, more than one 64-bit word) in a smaller simulator of its own (widesim: 13 of the components instantiated, 26 shapes, 18 queries, insert / extend / remove / clear / Entry::add / Entry::remove / queries / token round trips / clone / clone_from / shrink_to_fit against a map model); for C15 C06 also a world with sixteen resources of sixteen types and a two-component registry (ressim: get / get_mut per type, 16 view lists through view_resources and as a query's resource views, four encodings, clone, clone_from)",
    "the reference model (BTreeMap of identifier -> component values) is trusted",
    "the dump hook (World::verif_dump, cfg brood_verif) reports the structures faithfully",
]


def e1(profile, quick, thorough, chunks=2):
    return {
        "quick": [{"binary": "worldsim", "package": "worldsim", "profile": profile, "runs": quick, "chunks_per_job": chunks}],
        "thorough": [{"binary": "worldsim", "package": "worldsim", "profile": profile, "runs": thorough, "chunks_per_job": chunks}],
        "timeout_s": {"quick": 1200, "thorough": 7200},
    }


PLAN = {
    "C01": e1("C01", 160000, 1600000),
    "C02": e1("C02", 160000, 1600000),
    "C03": e1("C03", 160000, 1600000),
    "C04": e1("C04", 160000, 1600000),
    "C05": e1("C05", 160000, 1600000),
    "C06": e1("C06", 160000, 1600000),
    "C10": e1("C10", 160000, 1600000),
    "C11": e1("C11", 160, 2400, chunks=4),
    "C13": e1("C13", 160000, 1600000),
    "C15": e1("C15", 160000, 1600000),
    "C16": e1("C16", 160000, 1600000),
    "C17": e1("C17", 1600, 24000, chunks=4),
}

# The 10-component registry (two identifier bytes, six padding bits) runs the same simulator.
for _p, _q, _t in (("C01", 40000, 400000), ("C03", 40000, 400000), ("C04", 40000, 400000), ("C05", 40000, 400000), ("C10", 40000, 400000), ("C06", 40000, 400000), ("C13", 40000, 400000), ("C11", 40, 600), ("C17", 400, 6000)):
    for _tier, _n in (("quick", _q), ("thorough", _t)):
        PLAN[_p][_tier] = PLAN[_p][_tier] + [{"binary": "worldsim10", "package": "worldsim10", "profile": _p, "runs": _n, "chunks_per_job": 2 if _p not in ("C11", "C17") else 4}]

# The 8-component registry: exactly one identifier byte, no padding bits.
for _p, _q, _t in (("C01", 30000, 300000), ("C06", 30000, 300000), ("C13", 30000, 300000), ("C11", 30, 400)):
    for _tier, _n in (("quick", _q), ("thorough", _t)):
        PLAN[_p][_tier] = PLAN[_p][_tier] + [{"binary": "worldsim8", "package": "worldsim8", "profile": _p, "runs": _n, "chunks_per_job": 2 if _p != "C11" else 4}]

# The empty registry (`Registry!()`): worlds of component-less entities; zero-length identifiers.
for _p, _q, _t in (("C01", 20000, 200000), ("C02", 20000, 200000), ("C06", 20000, 200000), ("C13", 20000, 200000), ("C11", 24, 300)):
    for _tier, _n in (("quick", _q), ("thorough", _t)):
        PLAN[_p][_tier] = PLAN[_p][_tier] + [{"binary": "worldsim0", "package": "worldsim0", "profile": _p, "runs": _n, "chunks_per_job": 1 if _p != "C11" else 2}]

# The 9-component registry: the ninth component is the first bit of a second identifier byte.
for _p, _q, _t in (("C01", 30000, 300000), ("C03", 30000, 300000), ("C13", 30000, 300000)):
    for _tier, _n in (("quick", _q), ("thorough", _t)):
        PLAN[_p][_tier] = PLAN[_p][_tier] + [{"binary": "worldsim9", "package": "worldsim9", "profile": _p, "runs": _n, "chunks_per_job": 2}]

# Every E1 property on every registry size it can depend on (smaller samples than on R7).
def _add(binname, prop, q, t, chunks=2):
    for _tier, _n in (("quick", q), ("thorough", t)):
        if not any(j["binary"] == binname for j in PLAN[prop][_tier]):
            PLAN[prop][_tier] = PLAN[prop][_tier] + [{"binary": binname, "package": binname, "profile": prop, "runs": _n, "chunks_per_job": chunks}]


for _p in ("C02", "C15", "C16"):
    _add("worldsim10", _p, 30000, 300000)
for _p in ("C03", "C04", "C05", "C10", "C02", "C16"):
    _add("worldsim8", _p, 20000, 200000)
for _p in ("C04", "C05", "C06", "C10", "C02", "C15", "C16"):
    _add("worldsim9", _p, 20000, 200000)
_add("worldsim9", "C11", 24, 300, chunks=4)
_add("worldsim8", "C17", 240, 3600, chunks=4)
_add("worldsim9", "C17", 240, 3600, chunks=4)

# The wide registry (72 components, nine identifier bytes): a smaller simulator of its own (harness/widesim).
for _p in ("C01", "C02", "C03", "C06", "C10", "C16"):
    _add("widesim", _p, 24000, 240000, chunks=1)

# A world with sixteen resources (harness/ressim): positions and lengths of the resource list.
for _p in ("C15", "C06"):
    _add("ressim", _p, 30000, 300000, chunks=1)

# Thorough tier of C05: the same seeds (histories capped at 25 operations) under the Miri interpreter.
PLAN["C05"]["thorough"] = PLAN["C05"]["thorough"] + [{"binary": "miri:worldsim", "package": "worldsim", "profile": "C05", "runs": 192, "chunks_per_job": 1,
                                                       "extra_args": ["--max-ops", "25"], "chunk_runs": 6}]

SCHED_BINS = [f"schedsim-{i:02d}" for i in range(16)]


# Thorough tier only: 32 more (random) schedules.
SCHED_BINS_THOROUGH = [f"schedsim-{i:02d}" for i in range(16, 32)]


# Both tiers of C07 / C08 / C12: 12 schedules of 5-6 small tasks with two adjacent wide stages (several next-stage
# candidates accepted or refused one after another while the running stage holds the claims of several tasks).
SCHED_BINS_STAGED = [f"schedsim-{i:02d}" for i in range(32, 38)]


# Both tiers of C07 / C08 / C12: tasks without component views (resource-only, entry-views-only, identifier-only,
# empty) next to ordinary ones (schedsim-38, -39), and a task viewing a component immutably through views and entry
# views next to a writer of that component (schedsim-40, -41), and two-stage schedules whose second-stage tasks are
# refused / accepted at run time in varying order (schedsim-42 ... -47).
SCHED_BINS_EXTRA = [f"schedsim-{i:02d}" for i in range(38, 48)]
SCHED_BINS_STAGED = SCHED_BINS_STAGED + SCHED_BINS_EXTRA


def e2(profile, quick_per_bin, thorough_per_bin):
    def jobs(n, bins):
        return [{"binary": b, "package": b, "profile": profile, "runs": n, "chunks_per_job": 1} for b in bins]
    return {"quick": jobs(quick_per_bin, SCHED_BINS + SCHED_BINS_STAGED), "thorough": jobs(thorough_per_bin, SCHED_BINS + SCHED_BINS_STAGED + SCHED_BINS_THOROUGH),
            "timeout_s": {"quick": 1200, "thorough": 7200}}


PLAN["C07"] = e2("C07", 10000, 100000)
PLAN["C08"] = e2("C08", 10000, 100000)
PLAN["C12"] = e2("C12", 10000, 100000)
PLAN["C09"] = {
    "quick": [{"binary": "parsim", "package": "parsim", "profile": "C09", "runs": 160000, "chunks_per_job": 2}]
             + [{"binary": b, "package": b, "profile": "C09", "runs": 2500, "chunks_per_job": 1} for b in SCHED_BINS],
    "thorough": [{"binary": "parsim", "package": "parsim", "profile": "C09", "runs": 3200000, "chunks_per_job": 2}]
                + [{"binary": b, "package": b, "profile": "C09", "runs": 50000, "chunks_per_job": 1} for b in SCHED_BINS],
    "timeout_s": {"quick": 1200, "thorough": 7200},
}
# Thorough tier of C09: the parallel-query catalogue under Miri (no OS threads: a stolen job runs entirely before or after its sibling).
PLAN["C09"]["thorough"] = PLAN["C09"]["thorough"] + [{"binary": "miri:parsim", "package": "parsim", "profile": "C09", "runs": 152, "chunks_per_job": 1, "chunk_runs": 6}]
# C15 also covers resource views of systems: the schedule simulator compares them with sequential execution.
for _t, _n in (("quick", 2500), ("thorough", 40000)):
    PLAN["C15"][_t] = PLAN["C15"][_t] + [{"binary": b, "package": b, "profile": "C15", "runs": _n, "chunks_per_job": 1} for b in SCHED_BINS + SCHED_BINS_EXTRA[:2]]
# C17 also injects panics into system bodies and parallel items.
for _t, _n_s, _n_p in (("quick", 1500, 30000), ("thorough", 30000, 600000)):
    PLAN["C17"][_t] = PLAN["C17"][_t] + [{"binary": b, "package": b, "profile": "C17", "runs": _n_s, "chunks_per_job": 1} for b in SCHED_BINS] \
        + [{"binary": "parsim", "package": "parsim", "profile": "C17", "runs": _n_p, "chunks_per_job": 1}]

REAL_E2 = ["brood (stager, stages, claims, run_schedule, par_query)", "hashbrown incl. its rayon RawParIter", "rayon (iterator plumbing: bridge, bridge_unindexed, zip, consumers)"]
STUB_E2 = ["rayon-core join / join_context / current_num_threads (vendored copy answering to the simulated scheduler; any other pool entry point exits 2)",
           "global allocator (deterministic auditing arena)", "system bodies (harness systems that touch and record everything reachable)"]
ASSUME_E2 = [
    "sampling of schedules x worlds x scheduler decisions: a clean batch is evidence, not proof",
    "brood-internal code between two harness callbacks is atomic to the scheduler; overlap is judged structurally from the recorded fork/join tree (series-parallel paths), so one run covers all interleavings of its tree",
    "the schedule catalogue is generated at build time (48 schedules / 171 tasks; for C07 C08 C12 also 12 staged schedules / 66 tasks, 6 with tasks that have no component views / 21 tasks and 8 with a component viewed through views and entry views next to its writer / 24 tasks, 12 add-on sequences / 53 tasks; 32 more random ones in the thorough tier) because staging is decided by trait resolution; schedules whose tasks view no resource also run on a world without resources",
    "the simulated join reproduces rayon's contract: both closures run to completion, a's panic wins",
]

GEN_RULE = ("one evaluation = one seeded history (run seed = mix(VERIF_SEED, engine, profile, index)) executed from an empty arena with every "
            "oracle evaluated after every operation; ")


def info2(level, rule, probes, expected, crash):
    d = info(level, rule, probes, expected, crash)
    d["real"], d["stub"], d["assumptions"] = REAL_E2, STUB_E2, ASSUME_E2
    return d


def info(level, rule, probes, expected, crash="C05"):
    return {
        "level": level,
        "rule": rule,
        "nontrivial_probes": probes,
        "expected_probes": expected,
        "crash_property": crash,
        "real": REAL_E1,
        "stub": STUB_E1,
        "assumptions": ASSUME_E1,
    }


PROPERTY_INFO = {
    "C01": info("exploration",
                GEN_RULE + "non-trivial = the history moved a row by swap-remove, changed an entity's shape, extended by a batch or cleared; distinct = distinct operation lists (hash)",
                ["remove_live", "entry_add_shape_change", "entry_remove_present", "extend", "clear"],
                ["insert_permuted_shape", "extend_batch_of_zero", "entry_add_overwrite", "entry_multi_step_handle", "world_has_empty_archetype",
                 "clone", "clone_from", "roundtrip_json", "roundtrip_tokens_compact", "roundtrip_tokens_readable", "query_mutating", "reserve", "shrink_to_fit"]),
    "C02": info("exploration",
                GEN_RULE + "non-trivial = at least one dead identifier was probed after its slot had been reused, or a batch met a non-empty free list; distinct = distinct operation lists",
                ["stale_identifier_slot_reused", "extend_batch_smaller_than_free_list", "extend_batch_equals_free_list", "extend_batch_larger_than_free_list", "identifier_slot_reused"],
                ["remove_stale_identifier", "stale_identifier_slot_reused", "extend_batch_smaller_than_free_list", "extend_batch_equals_free_list",
                 "extend_batch_larger_than_free_list", "dead_identifiers_probed", "single_query_dead_identifier"]),
    "C03": info("exploration",
                GEN_RULE + "non-trivial = a catalogue query, entry query or entries sub-query returned at least one result on a populated world; distinct = distinct operation lists",
                ["query", "entry_query", "entries_sub_query"],
                ["query", "query_mutating", "query_optional_view_absent", "query_no_match", "entry_query", "entries_query", "entries_sub_query",
                 "single_query_no_match", "single_query_optional_absent", "single_query_dead_identifier", "world_has_empty_archetype"]),
    "C04": info("exploration",
                GEN_RULE + "non-trivial = values were destroyed by at least one of remove / clear / overwrite / Entry::remove / clone_from / world drop; distinct = distinct operation lists",
                ["remove_live", "clear", "entry_add_overwrite", "entry_remove_present", "clone_from", "drop_world"],
                ["remove_live", "clear", "entry_add_overwrite", "entry_remove_present", "clone_from", "drop_world", "clone", "crash_restore_from_snapshot", "corrupt_rejected_after_constructing_values", "corrupt_accepted", "fault_fired"]),
    "C05": info("exploration",
                GEN_RULE + "non-trivial = the history grew or shrank column storage (reserve, shrink_to_fit, batch adoption, shape change); the arena auditor, red zones, poison and the dump/allocator cross-check run on every operation; distinct = distinct operation lists",
                ["reserve", "shrink_to_fit", "extend", "entry_add_shape_change"],
                ["reserve", "shrink_to_fit", "extend", "entry_add_shape_change", "world_has_empty_archetype", "query_mutating", "entries_sub_query", "ragged_batch_refused", "reserve_overflow_refused", "world_has_more_than_131072_slots", "corrupt_rejected_after_constructing_values", "corrupt_accepted", "fault_fired"]),
    "C06": info("exploration",
                GEN_RULE + "non-trivial = at least one round trip or crash+restore of a non-empty world, or a mirrored lock-step operation; distinct = distinct operation lists",
                ["roundtrip_with_nonempty_free_list", "lockstep_mirrored_op", "crash_restore_from_snapshot", "roundtrip_json", "roundtrip_tokens_compact", "roundtrip_tokens_readable", "roundtrip_tokens_compact_struct_as_seq", "roundtrip_json_value_sorted_keys"],
                ["roundtrip_json", "roundtrip_tokens_compact", "roundtrip_tokens_readable", "roundtrip_tokens_compact_struct_as_seq", "roundtrip_json_value_sorted_keys", "roundtrip_with_nonempty_free_list", "roundtrip_of_empty_world",
                 "lockstep_mirrored_op", "crash_restore_from_snapshot", "snapshot", "deserialize_in_place", "world_has_more_than_65536_slots"], crash="C06"),
    "C10": info("exploration",
                GEN_RULE + "non-trivial = a clone or clone_from followed by further operations on either side; distinct = distinct operation lists",
                ["clone", "clone_from"],
                ["clone", "clone_from", "clone_from_destination_has_extra_archetypes", "lockstep_mirrored_op", "drop_world", "world_has_more_than_64_archetypes", "world_has_more_than_128_archetypes", "world_has_more_than_131072_slots"], crash="C10"),
    "C11": info("fault_enumeration",
                "for each seeded small world (<= 14 operations) and one of five encodings (tokens human-readable, tokens compact, serde_json text, tokens compact with structs as plain sequences, serde_json through `Value` = fields in sorted order), one evaluation = one complete run deserializing the library's own output with one fault "
                "(delete / duplicate / swap / truncate at every token or byte position, every defined alteration of every token, seeded moves) or a seeded double fault, "
                "followed by a continuation on any accepted world; non-trivial = the attempt reached the library's deserializer and was accepted or rejected; distinct = distinct (history, fault) lists",
                ["corrupt_rejected", "corrupt_accepted"],
                ["corrupt_rejected", "corrupt_accepted", "corrupt_rejected_after_constructing_values"], crash="C11"),
    "C13": info("exploration",
                GEN_RULE + "the structural audit of the dump runs after every operation on every world; non-trivial = the history freed and reused slots or removed / created tables; distinct = distinct operation lists",
                ["identifier_slot_reused", "shrink_to_fit", "clone_from", "clear", "entry_add_shape_change"],
                ["identifier_slot_reused", "shrink_to_fit", "clone_from", "clear", "roundtrip_json", "roundtrip_tokens_compact", "extend_batch_smaller_than_free_list", "world_has_more_than_64_archetypes"], crash="C13"),
    "C15": info("exploration",
                GEN_RULE + "non-trivial = resources were viewed or written through at least one accessor; distinct = distinct operation lists",
                ["view_resources", "get_mut_resource"],
                ["view_resources", "query_resource_views", "get_mut_resource", "clone", "clone_from", "roundtrip_json", "all_sixteen_resources_viewed"], crash="C15"),
    "C16": info("exploration",
                GEN_RULE + "non-trivial = two worlds were compared and the verdict checked against the models; distinct = distinct operation lists",
                ["eq_true", "eq_false"],
                ["eq_true", "eq_false", "eq_false_same_content", "eq_true_after_separate_histories", "clone", "roundtrip_json"], crash="C16"),
    "C17": info("fault_enumeration",
                "for each seeded small history and target operation (remove, clear, Entry::add/remove, drop, clone, clone_from, ==, {:?}, serialize, deserialize, restore, extend), "
                "a dry run counts the user callbacks of each kind; one evaluation = one complete run with a panic (or, for Serialize/Deserialize, also an Err) injected at one callback position, "
                "followed by a continuation and the drop of every world; non-trivial = the fault fired; distinct = distinct (history, fault) lists",
                ["fault_fired"],
                ["fault_fired", "panic_reached_caller"], crash="C17"),
}

E2_RULE = ("one evaluation = one simulated execution of run_schedule for one catalogue schedule on a seeded world (0-12 archetype populations incl. emptied ones) under a seeded "
           "scheduler configuration (pool size 1-64, strategy, steal rate, injected root, 1-2 repeats) with every decision drawn from the run seed, "
           "compared with sequential run_system/run_par_system calls on a clone; ")
PROPERTY_INFO["C07"] = info2("exploration", E2_RULE + "non-trivial = the schedule changed the world and at least one fork was stolen or a task was started early as a run-time add-on; distinct = distinct (schedule, configuration, decision list)",
                             ["schedule_changed_world"], ["schedule_changed_world", "run_with_steals", "run_time_add_on_started_early", "tasks_interleaved_in_time", "single_thread_pool", "emptied_archetype", "world_without_resources", "crowded_world", "table_of_more_than_1024_rows"], "C07")
PROPERTY_INFO["C08"] = info2("exploration", E2_RULE + "non-trivial = at least one pair of different tasks reached the same value with a write among them (the pair is then checked for fork/join ordering); distinct = distinct (schedule, configuration, decision list)",
                             ["conflicting_task_pairs_checked"], ["conflicting_task_pairs_checked", "run_time_add_on_started_early", "tasks_interleaved_in_time", "crowded_world", "table_of_more_than_1024_rows"], "C08")
PROPERTY_INFO["C12"] = info2("exploration", E2_RULE + "non-trivial = the schedule has a greedy group of two or more independent tasks whose placement was checked, or ran on a single-thread pool; distinct = distinct (schedule, configuration, decision list)",
                             ["independent_pair_parallel", "single_thread_pool"], ["independent_pair_parallel", "single_thread_pool", "empty_world", "world_without_archetypes", "world_without_resources", "schedule_has_parallel_group"], "C12")

PROPERTY_INFO["C09"] = info2("exploration",
    "one evaluation = one catalogue par_query (76 view/filter combinations) or one catalogue schedule containing ParSystems, on a seeded world (archetypes of length 0, 1, 2, 3, 7, 20, 60/300 incl. emptied ones), "
    "executed under the simulated scheduler (pool size 1-64 which also sets rayon's split depth, steals and migrated flags by draw, item closures yield) and compared with the sequential query on the same world and with "
    "the sequential counterpart's writes on a clone; non-trivial = the parallel iteration yielded results and was split at least once; distinct = distinct (query, configuration, decision list)",
    ["parallel_iteration_split", "run_with_steals"],
    ["par_query_nonempty", "parallel_iteration_split", "run_with_steals", "par_optional_view_absent", "archetype_of_length_one", "large_archetype", "emptied_archetype", "empty_world", "value_consumer_split", "short_circuit_consumer", "short_circuit_skipped_items", "crowded_world", "table_of_more_than_1024_rows"], "C09")
