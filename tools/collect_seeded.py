#!/usr/bin/env python3
"""Collect evaluated seeded changes into /verif/seeded/<id>/ and regenerate SEEDED.md.

usage: collect_seeded.py [<agent output dir> <results dir> <result name prefix> <first number> <origin text>]

  <agent output dir>/<Cxx>-out/<k>/{patch.diff,demo.rs,notes.md}   what the sub-agent wrote (k = 1, 2, ...)
  <results dir>/<prefix><Cxx>-<k>/summary.txt                        what tools/try_mutant.sh reported

Change k of property Cxx becomes seeded/<Cxx>-<first number + k - 1>/. Without arguments only
SEEDED.md is regenerated from the meta.json files. A later evaluation of an already collected
change (results dir only) updates its `checks_run`.
"""
import json, os, re, shutil, sys

OUT = "/verif/seeded"
props = {}
for l in open("/verif/properties.jsonl"):
    p = json.loads(l)
    props[p["id"]] = p["title"]


def parse_summary(text):
    without = re.search(r"demo without change: exit (\d+)", text)
    with_ = re.search(r"demo with change: exit (\d+)", text)
    suite = re.search(r"pinned suite with change: exit (\d+) \((\d+) ok groups, (\d+) FAILED\)", text)
    checks = {}
    for cm in re.finditer(r"check (C\d\d): exit (\d+) (\d+) violation line\(s\): ?(.*)", text):
        v = cm.group(4)
        om = re.search(r"oracle=(\S+)", v)
        opm = re.search(r"oracle_property=(\S+)", v) or re.search(r"VIOLATION property=(\S+)", v)
        ops = re.search(r"ops=(\d+)\(from (\d+)\)", v)
        checks[cm.group(1)] = {"exit": int(cm.group(2)), "violation_lines": int(cm.group(3)), "oracle": om.group(1) if om else None,
                               "oracle_property": opm.group(1) if opm else None, "minimised_ops": int(ops.group(1)) if ops else None}
    return without, with_, suite, checks


def collect(agent_dir, results_dir, prefix, first, origin):
    n_new = 0
    for name in sorted(os.listdir(results_dir)):
        m = re.fullmatch(re.escape(prefix) + r"(C\d\d)-(\d+)", name)
        if not m:
            continue
        prop, k = m.group(1), int(m.group(2))
        sid = f"{prop}-{first + k - 1}"
        summ = os.path.join(results_dir, name, "summary.txt")
        src = os.path.join(agent_dir, f"{prop}-out", str(k))
        if not os.path.exists(summ) or not os.path.exists(os.path.join(src, "patch.diff")):
            continue
        text = open(summ).read()
        if "check " not in text:
            continue
        without, with_, suite, checks = parse_summary(text)
        confirmed = bool(without and with_ and suite and without.group(1) == "0" and with_.group(1) != "0" and suite.group(1) == "0" and suite.group(3) == "0")
        d = os.path.join(OUT, sid)
        os.makedirs(d, exist_ok=True)
        for f in ("patch.diff", "demo.rs", "notes.md"):
            if os.path.exists(os.path.join(src, f)):
                shutil.copy(os.path.join(src, f), os.path.join(d, f))
        notes = open(os.path.join(src, "notes.md")).read() if os.path.exists(os.path.join(src, "notes.md")) else ""
        first_line = next((l.strip() for l in notes.splitlines() if l.strip() and not l.startswith("#")), "")
        keep = {}
        old_meta = os.path.join(d, "meta.json")
        if os.path.exists(old_meta):
            keep = json.load(open(old_meta))
        merged = dict(keep.get("checks_run", {}))
        merged.update(checks)
        meta = {
            "id": sid,
            "breaks_property": prop,
            "property_title": props.get(prop),
            "origin": origin,
            "what": first_line[:400],
            "needs_to_manifest": keep.get("needs_to_manifest", "see notes.md"),
            "confirmed_by_me": {"pinned_suite_passes_with_change": bool(suite and suite.group(1) == "0" and suite.group(3) == "0"),
                                "demo_passes_without_change": bool(without and without.group(1) == "0"),
                                "demo_fails_with_change": bool(with_ and with_.group(1) != "0"),
                                "how": "tools/try_mutant.sh on a scratch worktree of /repo HEAD (cargo test --offline; demo as tests/zz_demo.rs with --features serde,rayon)"},
            "kept": confirmed,
            "checks_run": merged,
            "detected": any(c["exit"] == 1 for c in merged.values()),
            "comment": keep.get("comment", ""),
        }
        json.dump(meta, open(old_meta, "w"), indent=1)
        n_new += 1
    return n_new


def update_existing(results_dir, prefix):
    """Re-evaluation of already collected changes: <results dir>/<prefix><seeded id>/summary.txt."""
    n = 0
    for name in sorted(os.listdir(results_dir)):
        m = re.fullmatch(re.escape(prefix) + r"(C\d\d-\d+)", name)
        if not m:
            continue
        mp = os.path.join(OUT, m.group(1), "meta.json")
        summ = os.path.join(results_dir, name, "summary.txt")
        if not (os.path.exists(mp) and os.path.exists(summ)):
            continue
        meta = json.load(open(mp))
        _, _, _, checks = parse_summary(open(summ).read())
        if not checks:
            continue
        meta["checks_run"].update(checks)
        meta["detected"] = any(c["exit"] == 1 for c in meta["checks_run"].values())
        json.dump(meta, open(mp, "w"), indent=1)
        n += 1
    return n


def regenerate():
    rows = []
    for sid in sorted(os.listdir(OUT)):
        mp = os.path.join(OUT, sid, "meta.json")
        if os.path.exists(mp):
            rows.append(json.load(open(mp)))
    lines = ["# Seeded changes and which checks catch them", "",
             "Each row is a change to Anders429/brood written by a sub-agent (see `origin` in its meta.json for what the agent was given).",
             "`kept` = I confirmed on a scratch worktree that the pinned suite still passes with the change and that the demonstration",
             "fails with it and passes without it. `quick checks` lists the exit status of each quick check run against the change",
             "(1 = violation reported, 0 = not detected) with the oracle that fired and the size of the minimised replay.", "",
             "| id | change | kept | quick checks | comment |", "|---|---|---|---|---|"]
    for m in rows:
        cs = "; ".join(f"{p}: {'**caught**' if c['exit'] == 1 else ('missed' if c['exit'] == 0 else 'harness error')}"
                       + (f" ({c['oracle']}, {c['oracle_property']}, {c['minimised_ops']} ops)" if c["exit"] == 1 else "") for p, c in m["checks_run"].items())
        lines.append(f"| {m['id']} | {m['what'][:160].replace('|', '/')} | {'yes' if m['kept'] else 'no'} | {cs} | {m['comment']} |")
    open("/verif/SEEDED.md", "w").write("\n".join(lines) + "\n")
    print(f"{len(rows)} seeded changes; detected by at least one check: {sum(1 for m in rows if m['detected'])}")


if __name__ == "__main__":
    a = sys.argv[1:]
    if len(a) == 5:
        print("collected", collect(a[0], a[1], a[2], int(a[3]), a[4]))
    elif len(a) == 3 and a[0] == "--update":
        print("updated", update_existing(a[1], a[2]))
    regenerate()
