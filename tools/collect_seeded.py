#!/usr/bin/env python3
"""Collect evaluated seeded changes from /tmp/mut (sub-agent output) and /tmp/mx (try_mutant.sh
results) into /verif/seeded/<id>/ and regenerate SEEDED.md."""
import json, os, re, shutil, sys

MUT, MX, OUT = "/tmp/mut", "/tmp/mx", "/verif/seeded"
props = {}
for l in open("/verif/properties.jsonl"):
    p = json.loads(l)
    props[p["id"]] = p["title"]
rows = []
for name in sorted(os.listdir(MX)):
    m = re.fullmatch(r"(C\d\d)-(\d)-out", name)
    if not m:
        continue
    prop, n = m.group(1), m.group(2)
    sid = f"{prop}-{n}"
    summ = os.path.join(MX, name, "summary.txt")
    src = os.path.join(MUT, f"{prop}-out", n)
    if not os.path.exists(summ) or not os.path.exists(os.path.join(src, "patch.diff")):
        continue
    text = open(summ).read()
    if "check " not in text:
        continue
    without = re.search(r"demo without change: exit (\d+)", text)
    with_ = re.search(r"demo with change: exit (\d+)", text)
    suite = re.search(r"pinned suite with change: exit (\d+) \((\d+) ok groups, (\d+) FAILED\)", text)
    checks = {}
    for cm in re.finditer(r"check (C\d\d): exit (\d+) (\d+) violation line\(s\): ?(.*)", text):
        v = cm.group(4)
        om = re.search(r"oracle=(\S+)", v)
        opm = re.search(r"oracle_property=(\S+)", v) or re.search(r"VIOLATION property=(\S+)", v)
        ops = re.search(r"ops=(\d+)\(from (\d+)\)", v)
        checks[cm.group(1)] = {"exit": int(cm.group(2)), "violation_lines": int(cm.group(3)), "oracle": om.group(1) if om else None,
                               "oracle_property": opm.group(1) if opm else None, "minimised_ops": int(ops.group(1)) if ops else None}
    confirmed = bool(without and with_ and suite and without.group(1) == "0" and with_.group(1) != "0" and suite.group(1) == "0" and suite.group(3) == "0")
    d = os.path.join(OUT, sid)
    os.makedirs(d, exist_ok=True)
    for f in ("patch.diff", "demo.rs", "notes.md"):
        if os.path.exists(os.path.join(src, f)):
            shutil.copy(os.path.join(src, f), os.path.join(d, f))
    notes = open(os.path.join(src, "notes.md")).read() if os.path.exists(os.path.join(src, "notes.md")) else ""
    first = next((l.strip() for l in notes.splitlines() if l.strip() and not l.startswith("#")), "")
    keep = {}
    old_meta = os.path.join(d, "meta.json")
    if os.path.exists(old_meta):
        keep = json.load(open(old_meta))
    meta = {
        "id": sid,
        "breaks_property": prop,
        "property_title": props.get(prop),
        "origin": {"1": "round 1: independent sub-agent given only the property text and a scratch worktree",
                   "2": "round 1: independent sub-agent given only the property text and a scratch worktree",
                   "3": "round 2: as round 1, additionally given one-line summaries of the round-1 changes for this property and asked to differ from them",
                   "4": "round 2: as round 1, additionally given one-line summaries of the round-1 changes for this property and asked to differ from them",
                   "5": "round 3 (adversarial): as round 1, additionally told in general terms what kind of randomized testing and schedule simulation exists and asked for changes such testing is likely to miss",
                   "6": "round 3 (adversarial): as round 1, additionally told in general terms what kind of randomized testing and schedule simulation exists and asked for changes such testing is likely to miss"}.get(n, "sub-agent"),
        "what": first[:400],
        "needs_to_manifest": keep.get("needs_to_manifest", "see notes.md"),
        "confirmed_by_me": {"pinned_suite_passes_with_change": bool(suite and suite.group(1) == "0" and suite.group(3) == "0"),
                            "demo_passes_without_change": bool(without and without.group(1) == "0"),
                            "demo_fails_with_change": bool(with_ and with_.group(1) != "0"),
                            "how": "tools/try_mutant.sh on a scratch worktree of /repo HEAD (cargo test --offline; demo as tests/zz_demo.rs with the features named in notes.md)"},
        "kept": confirmed,
        "checks_run": checks,
        "detected": any(c["exit"] == 1 for c in checks.values()),
        "comment": keep.get("comment", ""),
    }
    json.dump(meta, open(old_meta, "w"), indent=1)
    rows.append(meta)

lines = ["# Seeded changes and which checks catch them", "",
         "Each row is a change to Anders429/brood written by an independent sub-agent that saw only the property text.",
         "`kept` = I confirmed on a scratch worktree that the pinned suite still passes with the change and that the demonstration",
         "fails with it and passes without it. `quick checks` lists the exit status of each quick check run against the change",
         "(1 = violation reported, 0 = not detected) with the oracle that fired and the size of the minimised replay.", "",
         "| id | change | kept | quick checks | comment |", "|---|---|---|---|---|"]
for m in rows:
    cs = "; ".join(f"{p}: {'**caught**' if c['exit'] == 1 else ('missed' if c['exit'] == 0 else 'harness error')}"
                   + (f" ({c['oracle']}, {c['oracle_property']}, {c['minimised_ops']} ops)" if c["exit"] == 1 else "") for p, c in m["checks_run"].items())
    lines.append(f"| {m['id']} | {m['what'][:160].replace('|', '/')} | {'yes' if m['kept'] else 'no'} | {cs} | {m['comment']} |")
open("/verif/SEEDED.md", "w").write("\n".join(lines) + "\n")
print(f"{len(rows)} seeded changes collected; detected: {sum(1 for m in rows if m['detected'])}")
