#!/bin/bash
# Evaluate one seeded change against the checks without touching /repo:
#   tools/try_mutant.sh <name> <patch.diff> <demo.rs|-> <features|-> <property> [<property> ...]
# Creates a scratch worktree of /repo HEAD under /tmp/mx, applies the patch, confirms that the
# library still builds and the pinned (default-feature) suite passes, that the demonstration fails
# with the change and passes without it, then runs the named quick checks against the patched copy
# (BROOD_DIR) with their own target/evidence/replay directories. Everything is removed afterwards.
set -u
name=$1; patch=$2; demo=$3; feats=$4; shift 4
base=/tmp/mx/$name
rm -rf $base $base-target $base-out $base-verif; mkdir -p /tmp/mx $base-out
git -C /repo worktree add -q --detach $base HEAD || exit 2
cleanup() { git -C /repo worktree remove --force $base 2>/dev/null; rm -rf $base $base-target $base-verif; }
trap cleanup EXIT
fa=""; [ "$feats" != "-" ] && fa="--features $feats"
cd $base
if [ "$demo" != "-" ]; then
  cp $demo tests/zz_demo.rs
  CARGO_NET_OFFLINE=true cargo test --offline $fa --test zz_demo > $base-out/demo_without.log 2>&1; echo "demo without change: exit $?" | tee -a $base-out/summary.txt
fi
git apply $patch || { echo "patch does not apply" | tee -a $base-out/summary.txt; exit 2; }
CARGO_NET_OFFLINE=true cargo build --offline --features serde,rayon > $base-out/build.log 2>&1 || { echo "does not build with features" | tee -a $base-out/summary.txt; exit 2; }
mv tests/zz_demo.rs /tmp/mx/$name-demo.rs 2>/dev/null
CARGO_NET_OFFLINE=true cargo test --offline > $base-out/suite.log 2>&1; echo "pinned suite with change: exit $? ($(grep -c 'test result: ok' $base-out/suite.log) ok groups, $(grep -c FAILED $base-out/suite.log) FAILED)" | tee -a $base-out/summary.txt
if [ "$demo" != "-" ]; then
  mv /tmp/mx/$name-demo.rs tests/zz_demo.rs
  CARGO_NET_OFFLINE=true cargo test --offline $fa --test zz_demo > $base-out/demo_with.log 2>&1; echo "demo with change: exit $?" | tee -a $base-out/summary.txt
  rm -f tests/zz_demo.rs
fi
rm -rf $base/target
# Run the checks from a snapshot of the committed /verif so that edits in progress do not interfere.
rm -rf $base-verif; mkdir -p $base-verif; git -C /verif archive HEAD | tar -x -C $base-verif
cd $base-verif
for p in "$@"; do
  BROOD_DIR=$base VERIF_TARGET_DIR=$base-target VERIF_EVIDENCE_DIR=$base-out/evidence VERIF_REPLAYS_DIR=$base-out/replays ./check $p --tier quick > $base-out/check_$p.log 2>&1
  echo "check $p: exit $? $(grep -c '^VIOLATION' $base-out/check_$p.log) violation line(s): $(grep '^VIOLATION' $base-out/check_$p.log | head -2 | cut -c1-260)" | tee -a $base-out/summary.txt
done
